pub mod prims {
use vstd::prelude::*;
use vstd::arithmetic::power2::pow2;
//@include ../common/prims_base.rs
// assumed specifications of std functions without a vstd spec (cross-checked by Kani, kani/prims.rs)
// R8 hoists of `X::try_from(value)?.to_be_bytes()`: body = original expression, contract assumed here
#[verifier::external_body]
pub fn verif_be_u8(x: u8) -> (r: [u8; 1]) ensures r@ == seq![x] { x.to_be_bytes() }
#[verifier::external_body]
pub fn verif_be_u16(x: u16) -> (r: [u8; 2]) ensures r@ == seq![(x / 256) as u8, (x % 256) as u8] { x.to_be_bytes() }
#[verifier::external_body]
pub fn verif_be_u32(x: u32) -> (r: [u8; 4])
    ensures r@ == seq![(x / 16777216) as u8, (x / 65536 % 256) as u8, (x / 256 % 256) as u8, (x % 256) as u8]
{ x.to_be_bytes() }
#[verifier::external_body]
pub fn verif_be_i8(x: i8) -> (r: [u8; 1]) ensures r@ == seq![(if x >= 0 { x as int } else { x as int + 256 }) as u8] { x.to_be_bytes() }
#[verifier::external_body]
pub fn verif_be_i16(x: i16) -> (r: [u8; 2])
    ensures ({ let u = if x >= 0 { x as int } else { x as int + 65536 }; r@ == seq![(u / 256) as u8, (u % 256) as u8] })
{ x.to_be_bytes() }
#[verifier::external_body]
pub fn verif_be_i32(x: i32) -> (r: [u8; 4])
    ensures ({ let u = if x >= 0 { x as int } else { x as int + 4294967296 };
               r@ == seq![(u / 16777216) as u8, (u / 65536 % 256) as u8, (u / 256 % 256) as u8, (u % 256) as u8] })
{ x.to_be_bytes() }
#[verifier::external_body]
pub fn verif_contains_i64(values: &Vec<i64>, value: i64) -> (r: bool)
    ensures r == values@.contains(value),
{ values.contains(&value) }
#[verifier::external_body]
pub fn verif_vec_copy_range(v: &mut Vec<u8>, a: usize, b: usize, d: &[u8])
    requires a <= b <= old(v)@.len(), d@.len() == b - a,
    ensures final(v)@.len() == old(v)@.len(),
        forall|i: int| 0 <= i < old(v)@.len() ==> final(v)@[i] == (if a <= i < b { d@[i - a] } else { old(v)@[i] }),
{ v[a..b].copy_from_slice(d) }
#[verifier::external_body]
pub fn verif_vec_tail_mut(v: &mut Vec<u8>, off: usize) -> (r: &mut [u8])
    requires off <= old(v)@.len(),
    ensures r@ == old(v)@.subrange(off as int, old(v)@.len() as int),
        final(v)@ == old(v)@.subrange(0, off as int) + final(r)@,
{ &mut v[off..] }
pub assume_specification [i64::pow](b: i64, e: u32) -> (r: i64)
    requires b == 2, e <= 62,
    ensures r == pow2(e as nat);
}

pub mod bits {
use vstd::prelude::*;
use vstd::arithmetic::power2::*;
pub open spec fn two_pow_tab(n: int) -> int {
    if n <= 0 { 1 } else if n == 1 { 2 } else if n == 2 { 4 } else if n == 3 { 8 } else if n == 4 { 16 }
    else if n == 5 { 32 } else if n == 6 { 64 } else if n == 7 { 128 } else { 256 }
}
pub broadcast proof fn lemma_or_zero_left(a: u8, y: u8)
    requires a == 0,
    ensures #[trigger] (a | y) == y,
{ assert(a == 0 ==> (a | y) == y) by (bit_vector); }
pub broadcast proof fn lemma_pow2_table(n: nat)
    requires n <= 8,
    ensures #[trigger] pow2(n) == two_pow_tab(n as int),
{ lemma2_to64(); }
}

pub mod spec {
use vstd::prelude::*;
use vstd::arithmetic::power2::pow2;
use super::prims::*;
use super::code::*;

// C20: well-formed layouts (DESIGN 5.7) and the value range each data type accepts
pub open spec fn wf_type(t: UserPrmDataType) -> bool {
    match t {
        UserPrmDataType::Bit(b) => b <= 7,
        UserPrmDataType::BitArea(f, l) => f <= l && l <= 7,
        _ => true,
    }
}
pub open spec fn size_of(t: UserPrmDataType) -> int {
    match t {
        UserPrmDataType::Unsigned8 | UserPrmDataType::Signed8 | UserPrmDataType::Bit(_) | UserPrmDataType::BitArea(_, _) => 1,
        UserPrmDataType::Unsigned16 | UserPrmDataType::Signed16 => 2,
        UserPrmDataType::Unsigned32 | UserPrmDataType::Signed32 => 4,
    }
}
pub open spec fn in_range(t: UserPrmDataType, v: int) -> bool {
    match t {
        UserPrmDataType::Unsigned8 => 0 <= v <= 255,
        UserPrmDataType::Unsigned16 => 0 <= v <= 65535,
        UserPrmDataType::Unsigned32 => 0 <= v <= 4294967295,
        UserPrmDataType::Signed8 => -128 <= v <= 127,
        UserPrmDataType::Signed16 => -32768 <= v <= 32767,
        UserPrmDataType::Signed32 => -2147483648 <= v <= 2147483647,
        UserPrmDataType::Bit(_) => v == 0 || v == 1,
        UserPrmDataType::BitArea(f, l) => 0 <= v < super::bits::two_pow_tab(l - f + 1),
    }
}
// big-endian two's complement of v in n bytes, byte i (0 = most significant)
pub open spec fn twos(v: int, n: int) -> int { if v >= 0 { v } else { v + pow256(n) } }
pub open spec fn pow256(n: int) -> int { if n == 1 { 256 } else if n == 2 { 65536 } else { 4294967296 } }
pub open spec fn be_byte(u: int, n: int, i: int) -> int {
    if n == 1 { u } else if n == 2 { if i == 0 { u / 256 } else { u % 256 } }
    else { if i == 0 { u / 16777216 } else if i == 1 { u / 65536 % 256 } else if i == 2 { u / 256 % 256 } else { u % 256 } }
}
pub open spec fn constraint_ok(c: PrmValueConstraint, v: int) -> bool {
    match c {
        PrmValueConstraint::MinMax(a, b) => a <= v <= b,
        PrmValueConstraint::Enum(vs) => vs@.contains(v as i64),
        PrmValueConstraint::Unconstrained => true,
    }
}
impl vstd::std_specs::convert::FromSpecImpl<PrmValueConstraintError> for SetPrmError {
    open spec fn obeys_from_spec() -> bool { true }
    open spec fn from_spec(v: PrmValueConstraintError) -> Self { SetPrmError::ValueConstraint(v) }
}
// the byte the block holds at index i after writing value v of type t over `old`
pub open spec fn wbyte(t: UserPrmDataType, v: int, old: Seq<u8>, i: int) -> u8 {
    if i >= size_of(t) { old[i] } else {
        match t {
            UserPrmDataType::Bit(b) => (old[0] & !(1u8 << b)) | ((v as u8) << b),
            UserPrmDataType::BitArea(f, l) => (old[0] & !field_mask(f, l)) | ((v as u8) << f),
            _ => be_byte(twos(v, size_of(t)), size_of(t), i) as u8,
        }
    }
}
// known finding F15: BitArea assigns the whole byte, so a set neighbour bit in the same byte is clobbered
pub open spec fn kf_bitarea(t: UserPrmDataType, old: Seq<u8>) -> bool {
    t matches UserPrmDataType::BitArea(f, l) && (old[0] & !field_mask(f, l)) != 0
}
// mask of a bit field first..=last inside one byte
pub open spec fn field_mask(f: u8, l: u8) -> u8 { (((1u16 << ((l - f + 1) as u16)) - 1) as u8) << f }
}

pub mod bprims {
use vstd::prelude::*;
use std::sync::Arc;
use super::code::*;
// R8: `self.data_ref.iter().find(|(_, r)| r.name == prm).cloned().ok_or_else(|| SetPrmError::PrmNotFound(prm.to_string()))`
#[verifier::external_body]
pub fn verif_find_prm(data_ref: &Vec<(usize, Arc<UserPrmDataDefinition>)>, prm: &str) -> (r: Result<(usize, Arc<UserPrmDataDefinition>), SetPrmError>)
    ensures
        r matches Ok(e) ==> exists|i: int| 0 <= i < data_ref@.len() && #[trigger] data_ref@[i] == e,
        r matches Err(e) ==> e is PrmNotFound,
{
    data_ref.iter().find(|(_, r)| r.name == prm).cloned().ok_or_else(|| SetPrmError::PrmNotFound(prm.to_string()))
}
}
pub mod bspec {
use vstd::prelude::*;
use std::sync::Arc;
use super::prims::*;
use super::code::*;
use super::spec::*;

// C20.builder: the block is the constants overlaid, field by field, with the referenced parameters' values
pub open spec fn grow(p: Seq<u8>, n: int) -> Seq<u8> { if p.len() >= n { p } else { p + Seq::new((n - p.len()) as nat, |i: int| 0u8) } }
pub open spec fn put_const(p: Seq<u8>, off: int, d: Seq<u8>) -> Seq<u8> {
    let g = grow(p, off + d.len());
    Seq::new(g.len(), |i: int| if off <= i < off + d.len() { d[i - off] } else { g[i] })
}
pub open spec fn apply_consts(p: Seq<u8>, cs: Seq<(usize, Vec<u8>)>, k: int) -> Seq<u8> decreases k {
    if k <= 0 { p } else { put_const(apply_consts(p, cs, k - 1), cs[k - 1].0 as int, cs[k - 1].1@) }
}
pub open spec fn put_field(p: Seq<u8>, off: int, t: UserPrmDataType, v: int) -> Seq<u8> {
    let g = grow(p, off + size_of(t));
    Seq::new(g.len(), |i: int| if i < off { g[i] } else { wbyte(t, v, g.subrange(off, g.len() as int), i - off) })
}
pub open spec fn apply_defaults(p: Seq<u8>, rs: Seq<(usize, Arc<UserPrmDataDefinition>)>, k: int) -> Seq<u8> decreases k {
    if k <= 0 { p } else { put_field(apply_defaults(p, rs, k - 1), rs[k - 1].0 as int, rs[k - 1].1.data_type, rs[k - 1].1.default_value as int) }
}
/// known finding F15 does not strike at any of the first k default writes
pub open spec fn no_kf(p: Seq<u8>, rs: Seq<(usize, Arc<UserPrmDataDefinition>)>, k: int) -> bool decreases k {
    if k <= 0 { true } else {
        let q = grow(apply_defaults(p, rs, k - 1), rs[k - 1].0 as int + size_of(rs[k - 1].1.data_type));
        no_kf(p, rs, k - 1) && !kf_bitarea(rs[k - 1].1.data_type, q.subrange(rs[k - 1].0 as int, q.len() as int))
    }
}
/// every referenced field lies inside the block (established by `new`)
pub open spec fn builder_wf(b: PrmBuilder) -> bool {
    desc_wf(*b.desc) && forall|i: int| 0 <= i < b.desc.data_ref@.len() ==> (#[trigger] b.desc.data_ref@[i]).0 + size_of(b.desc.data_ref@[i].1.data_type) <= b.prm@.len()
}
pub open spec fn desc_wf(d: UserPrmData) -> bool {
    &&& forall|i: int| 0 <= i < d.data_const@.len() ==> (#[trigger] d.data_const@[i]).0 + d.data_const@[i].1@.len() <= 100000
    &&& forall|i: int| 0 <= i < d.data_ref@.len() ==> (#[trigger] d.data_ref@[i]).0 <= 90000 && wf_type(d.data_ref@[i].1.data_type)
}
}
