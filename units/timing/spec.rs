pub mod prims {
use vstd::prelude::*;
//@include ../common/prims_base.rs
#[verifier::external_body]
pub struct Las128 { _p: [usize; 2] }
// std's reflexive conversion `impl<T> From<T> for T` is the identity (no vstd spec yet)
pub assume_specification<T>[ <T as core::convert::From<T>>::from ](t: T) -> (r: T)
    ensures r == t;
pub assume_specification [i64::unsigned_abs](x: i64) -> (r: u64)
    ensures r == (if x >= 0 { x as int } else { -(x as int) });
}
pub mod arith {
use vstd::prelude::*;
pub broadcast proof fn lemma_mul_u16_small(a: u32, b: u32)
    requires a <= 65535, b <= 1000,
    ensures #[trigger] (a * b) <= 65535000,
{ assert(a * b <= 65535 * 1000) by (nonlinear_arith) requires a <= 65535, b <= 1000; }
}
pub mod spec {
use vstd::prelude::*;
use core::cmp::Ordering;
use super::prims::*;
use super::code::*;

// derived comparisons of the time types compare the microsecond counters
impl vstd::std_specs::cmp::PartialEqSpecImpl for Instant {
    open spec fn obeys_eq_spec() -> bool { true }
    open spec fn eq_spec(&self, other: &Instant) -> bool { self.micros == other.micros }
}
impl vstd::std_specs::cmp::PartialOrdSpecImpl for Instant {
    open spec fn obeys_partial_cmp_spec() -> bool { true }
    open spec fn partial_cmp_spec(&self, other: &Instant) -> Option<Ordering> {
        if self.micros < other.micros { Some(Ordering::Less) } else if self.micros == other.micros { Some(Ordering::Equal) } else { Some(Ordering::Greater) }
    }
}
impl vstd::std_specs::cmp::OrdSpecImpl for Instant {
    open spec fn obeys_cmp_spec() -> bool { true }
    open spec fn cmp_spec(&self, other: &Instant) -> Ordering {
        if self.micros < other.micros { Ordering::Less } else if self.micros == other.micros { Ordering::Equal } else { Ordering::Greater }
    }
}
impl vstd::std_specs::cmp::PartialEqSpecImpl for Duration {
    open spec fn obeys_eq_spec() -> bool { true }
    open spec fn eq_spec(&self, other: &Duration) -> bool { self.micros == other.micros }
}
impl vstd::std_specs::cmp::PartialOrdSpecImpl for Duration {
    open spec fn obeys_partial_cmp_spec() -> bool { true }
    open spec fn partial_cmp_spec(&self, other: &Duration) -> Option<Ordering> {
        if self.micros < other.micros { Some(Ordering::Less) } else if self.micros == other.micros { Some(Ordering::Equal) } else { Some(Ordering::Greater) }
    }
}
impl vstd::std_specs::cmp::OrdSpecImpl for Duration {
    open spec fn obeys_cmp_spec() -> bool { true }
    open spec fn cmp_spec(&self, other: &Duration) -> Ordering {
        if self.micros < other.micros { Ordering::Less } else if self.micros == other.micros { Ordering::Equal } else { Ordering::Greater }
    }
}
// arithmetic operators (preconditions: the documented time range, DESIGN section 4)
pub open spec fn t_ok(i: Instant) -> bool { -0x4000_0000_0000_0000 < i.micros < 0x4000_0000_0000_0000 }
pub open spec fn d_ok(d: Duration) -> bool { d.micros < 0x100_0000_0000 }
impl vstd::std_specs::ops::AddSpecImpl<Duration> for Instant {
    open spec fn obeys_add_spec() -> bool { true }
    open spec fn add_req(self, rhs: Duration) -> bool { t_ok(self) && d_ok(rhs) }
    open spec fn add_spec(self, rhs: Duration) -> Instant { Instant { micros: (self.micros + rhs.micros) as i64 } }
}
impl vstd::std_specs::ops::SubSpecImpl<Duration> for Instant {
    open spec fn obeys_sub_spec() -> bool { true }
    open spec fn sub_req(self, rhs: Duration) -> bool { t_ok(self) && d_ok(rhs) }
    open spec fn sub_spec(self, rhs: Duration) -> Instant { Instant { micros: (self.micros - rhs.micros) as i64 } }
}
impl vstd::std_specs::ops::SubSpecImpl<Instant> for Instant {
    open spec fn obeys_sub_spec() -> bool { true }
    open spec fn sub_req(self, rhs: Instant) -> bool { t_ok(self) && t_ok(rhs) }
    open spec fn sub_spec(self, rhs: Instant) -> Duration { Duration { micros: (if self.micros >= rhs.micros { self.micros - rhs.micros } else { rhs.micros - self.micros }) as u64 } }
}

// C01: bit times.  rate in bit/s; bits_to_time(b) = floor(b * 10^6 / rate) microseconds
pub open spec fn rate_of(b: Baudrate) -> int {
    match b {
        Baudrate::B9600 => 9600, Baudrate::B19200 => 19200, Baudrate::B31250 => 31250, Baudrate::B45450 => 45450,
        Baudrate::B93750 => 93750, Baudrate::B187500 => 187500, Baudrate::B500000 => 500000, Baudrate::B1500000 => 1500000,
        Baudrate::B3000000 => 3000000, Baudrate::B6000000 => 6000000, Baudrate::B12000000 => 12000000,
    }
}
pub open spec fn bit_time_us(b: Baudrate, bits: int) -> int { bits * 1000000 / rate_of(b) }
}

pub mod lemmas {
use vstd::prelude::*;
use super::code::*;
use super::spec::*;
// C01.stagger: the silence time-outs of two stations with the same slot time differ by at least
// 2*(TS2-TS1) slot times (up to the 1 us resolution of the clock), so two listeners never claim together
pub proof fn lemma_stagger(b: Baudrate, slot_bits: int, ts1: int, ts2: int)
    requires 0 <= ts1 < ts2 <= 126, 1 <= slot_bits <= 65535,
    ensures
        bit_time_us(b, slot_bits * (6 + 2 * ts2)) - bit_time_us(b, slot_bits * (6 + 2 * ts1))
            >= 2 * (ts2 - ts1) * bit_time_us(b, slot_bits) - 1,
        bit_time_us(b, slot_bits * (6 + 2 * ts2)) > bit_time_us(b, slot_bits * (6 + 2 * ts1)) || bit_time_us(b, slot_bits) == 0,
{
    let r = rate_of(b);
    let a1 = slot_bits * (6 + 2 * ts1) * 1000000;
    let a2 = slot_bits * (6 + 2 * ts2) * 1000000;
    let k = 2 * (ts2 - ts1);
    let s = slot_bits * 1000000;
    assert(a2 == a1 + k * s) by (nonlinear_arith)
        requires a1 == slot_bits * (6 + 2 * ts1) * 1000000, a2 == slot_bits * (6 + 2 * ts2) * 1000000, k == 2 * (ts2 - ts1), s == slot_bits * 1000000;
    // floor((a1 + k*s)/r) >= floor(a1/r) + k*floor(s/r)
    assert(r > 0);
    assert((a1 + k * s) / r >= a1 / r + k * (s / r)) by (nonlinear_arith)
        requires r > 0, a1 >= 0, k >= 0, s >= 0;
    let t = bit_time_us(b, slot_bits);
    assert(t >= 1 ==> k * t - 1 >= 1) by (nonlinear_arith) requires k >= 2;
}
}
