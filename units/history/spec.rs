pub mod prims { use vstd::prelude::*; }
pub mod spec { use vstd::prelude::*; }
pub mod periph {
use vstd::prelude::*;
// ---- transcription of the peripheral step contracts (harnesses c03_tx_kind, c08_tx_retry_exhausted, c03_rx_bringup, c04_rx_dataexch)
pub enum PS { Offline, WaitPrm, WaitCfg, Validate, PreDx, Dx }
pub enum Req { NoReq, Diag, SetPrm, ChkCfg, DataExch, WentOffline }
pub enum Fcb { First, High, Low }
pub enum Reply {
    Lost,                                   // no admissible reply reached receive_reply (time-out)
    Sc,
    DiagOk { prm_fault: bool, cfg_fault: bool, prm_req: bool, not_ready: bool },   // well-formed diagnostics response
    DataOk { dh: bool },                    // data response, status OK/DL/DH, exact length
    SapNotEnabled,
    Other,                                  // any other admissible reply
}
pub struct P { pub st: PS, pub retry: nat, pub fcb: Fcb, pub diag_needed: bool }
pub struct Cfg { pub limit: nat, pub has_prm: bool, pub has_cfg: bool, pub empty_pi_i: bool }

pub open spec fn cycle(f: Fcb) -> Fcb { if f is Low { Fcb::High } else { Fcb::Low } }

/// transmit_telegram: (request kind, state after)
pub open spec fn tx(p: P, c: Cfg) -> (Req, P) {
    if p.retry > c.limit { (Req::WentOffline, P { st: PS::Offline, retry: 0, fcb: Fcb::First, diag_needed: p.diag_needed }) }
    else {
        let k = match p.st {
            PS::Offline => if p.retry == 0 { Req::Diag } else { Req::NoReq },
            PS::WaitPrm => if c.has_prm { Req::SetPrm } else { Req::NoReq },
            PS::WaitCfg => if c.has_cfg { Req::ChkCfg } else { Req::NoReq },
            PS::Validate => Req::Diag,
            PS::PreDx | PS::Dx => if p.diag_needed { Req::Diag } else { Req::DataExch },
        };
        (k, P { retry: if k is NoReq { 0 } else { p.retry + 1 }, ..p })
    }
}
/// did receive_reply accept the reply (=> fcb cycled, retry reset)
pub open spec fn accepted(p: P, c: Cfg, r: Reply) -> bool {
    match p.st {
        PS::Offline => r is DiagOk,
        PS::WaitPrm | PS::WaitCfg => r is Sc,
        PS::Validate => r is DiagOk,
        PS::PreDx | PS::Dx => if p.diag_needed { r is DiagOk } else { !(r is Lost) },
    }
}
pub open spec fn rx(p: P, c: Cfg, r: Reply) -> P {
    if r is Lost { p } else {
    let acc = accepted(p, c, r);
    let fcb = if acc { cycle(p.fcb) } else { p.fcb };
    match p.st {
        PS::Offline => if acc { P { st: PS::WaitPrm, retry: 0, fcb, ..p } } else { p },
        PS::WaitPrm => if acc { P { st: PS::WaitCfg, retry: 0, fcb, ..p } } else { p },
        PS::WaitCfg => if acc { P { st: PS::Validate, retry: 0, fcb, ..p } } else { p },
        PS::Validate => match r {
            Reply::DiagOk { prm_fault, cfg_fault, prm_req, not_ready } =>
                P { st: if prm_fault || cfg_fault { PS::Offline } else if prm_req { PS::WaitPrm } else if !not_ready { PS::PreDx } else { PS::Validate }, retry: 0, fcb, ..p },
            _ => P { retry: 0, ..p },
        },
        PS::PreDx | PS::Dx => if p.diag_needed {
                if acc { P { retry: 0, fcb, diag_needed: false, ..p } } else { p }
            } else { match r {
                Reply::DataOk { dh } => P { st: PS::Dx, retry: 0, fcb, diag_needed: dh },
                Reply::Sc => P { st: if c.empty_pi_i { PS::Dx } else { p.st }, retry: 0, fcb, diag_needed: false },
                Reply::SapNotEnabled => P { st: PS::Validate, retry: 0, fcb, diag_needed: false },
                _ => P { retry: 0, fcb, diag_needed: false, ..p },
            } },
    } }
}

// ---- C03.order: ghost monitor of the bring-up progress
pub open spec fn rank(s: PS) -> nat { match s { PS::Offline => 0, PS::WaitPrm => 1, PS::WaitCfg => 2, PS::Validate => 3, PS::PreDx | PS::Dx => 4 } }
/// g = how far the bring-up got since the peripheral was last offline / asked for parameters:
/// 1 diag answered, 2 Set_Prm acknowledged, 3 Chk_Cfg acknowledged, 4 readiness confirmed by a later diag
pub open spec fn monitor(g: nat, p: P, c: Cfg, k: Req, r: Reply) -> nat {
    if k is WentOffline { 0 }
    else if r is Lost || k is NoReq { g }
    else { match (p.st, k, r) {
        (PS::Offline, Req::Diag, Reply::DiagOk { .. }) => 1,
        (PS::WaitPrm, Req::SetPrm, Reply::Sc) => if g >= 1 { 2 } else { g },
        (PS::WaitCfg, Req::ChkCfg, Reply::Sc) => if g >= 2 { 3 } else { g },
        (PS::Validate, Req::Diag, Reply::DiagOk { prm_fault, cfg_fault, prm_req, not_ready }) =>
            if prm_fault || cfg_fault { 0 } else if prm_req { 1 } else if !not_ready && g >= 3 { 4 } else { g },
        (_, Req::DataExch, Reply::SapNotEnabled) => if g > 3 { 3 } else { g },
        _ => g,
    } }
}
pub struct Ev { pub reply: Reply, pub user_diag: bool }
/// one bus cycle with this peripheral: optional user call request_diagnostics(), transmit, (reply | time-out)
pub open spec fn step(p: P, g: nat, c: Cfg, e: Ev) -> (P, nat, Req) {
    let p0 = if e.user_diag { P { diag_needed: true, ..p } } else { p };
    let (k, p1) = tx(p0, c);
    let r = if k is NoReq || k is WentOffline { Reply::Lost } else { e.reply };
    (rx(p1, c, r), monitor(g, p1, c, k, r), k)
}
pub proof fn lemma_order_step(p: P, g: nat, c: Cfg, e: Ev)
    requires rank(p.st) <= g <= 4,
    ensures ({ let (p2, g2, k) = step(p, g, c, e);
        &&& rank(p2.st) <= g2 <= 4
        // C03: a Data_Exchange request is only sent when the whole bring-up was confirmed
        &&& (k is DataExch ==> g == 4)
    }),
{ }
pub open spec fn run(p: P, g: nat, c: Cfg, es: Seq<Ev>) -> (P, nat)
    decreases es.len()
{
    if es.len() == 0 { (p, g) } else { let (p2, g2) = run(p, g, c, es.drop_last()); let (p3, g3, _k) = step(p2, g2, c, es.last()); (p3, g3) }
}
pub proof fn lemma_order(c: Cfg, es: Seq<Ev>)
    ensures ({ let (p, g) = run(P { st: PS::Offline, retry: 0, fcb: Fcb::First, diag_needed: false }, 0, c, es); rank(p.st) <= g <= 4 }),
    decreases es.len()
{
    if es.len() > 0 {
        lemma_order(c, es.drop_last());
        let (p2, g2) = run(P { st: PS::Offline, retry: 0, fcb: Fcb::First, diag_needed: false }, 0, c, es.drop_last());
        lemma_order_step(p2, g2, c, es.last());
    }
}

// ---- C08.pairs: frame count bit discipline over consecutive requests (without user interference between request and reply)
pub proof fn lemma_fcb_pairs(p: P, c: Cfg, r: Reply)
    ensures ({
        let (k1, p1) = tx(p, c);
        let p2 = rx(p1, c, if k1 is NoReq || k1 is WentOffline { Reply::Lost } else { r });
        let (k2, _p3) = tx(p2, c);
        let sent1 = !(k1 is NoReq) && !(k1 is WentOffline);
        let sent2 = !(k2 is NoReq) && !(k2 is WentOffline);
        // the request carries the FCB the peripheral holds; transmit does not change it
        &&& (sent1 ==> p1.fcb == p.fcb)
        // after an accepted reply the next request has the toggled bit with FCV = 1
        &&& (sent1 && accepted(p1, c, r) ==> p2.fcb == cycle(p.fcb) && !(p2.fcb is First))
        // same FCB twice in a row => nothing was accepted in between, and it is the same service (a retransmission)
        &&& (sent1 && sent2 && p2.fcb == p.fcb ==> (!accepted(p1, c, r) || r is Lost) && k2 == k1)
        // a peripheral declared offline restarts with First
        &&& (k1 is WentOffline ==> p1.fcb is First && p1.st is Offline)
    }),
{ }
/// an unanswered request is transmitted at most 1 + limit times, then exactly one WentOffline
pub open spec fn silent(p: P, c: Cfg, n: nat) -> P decreases n { if n == 0 { p } else { tx(silent(p, c, (n - 1) as nat), c).1 } }
pub proof fn lemma_retry_bound(p: P, c: Cfg, n: nat)
    requires !(p.st is Offline), p.retry == 0, tx(p, c).0 != Req::NoReq, n <= c.limit + 1,
        !(p.st is WaitPrm) || c.has_prm, !(p.st is WaitCfg) || c.has_cfg,
    ensures silent(p, c, n).retry == n, silent(p, c, n).st == p.st, silent(p, c, n).fcb == p.fcb,
        n == c.limit + 1 ==> tx(silent(p, c, n), c).0 is WentOffline,
        n <= c.limit ==> tx(silent(p, c, n), c).0 == tx(p, c).0,
    decreases n
{
    if n > 0 { lemma_retry_bound(p, c, (n - 1) as nat); }
}
}

pub mod sweep {
use vstd::prelude::*;
// ---- C18.sweep: transcription of the LiveList / DpScanner per-call contracts (harnesses c18_ll_* / c18_sc_*)
/// outcome of probing one address: true = a reply was delivered, false = time-out
pub open spec fn after(stations: Set<int>, a: int, reply: bool) -> Set<int> { if reply { stations.insert(a) } else { stations.remove(a) } }
pub open spec fn event(stations: Set<int>, a: int, reply: bool) -> bool { stations.contains(a) != reply }   // Discovered resp. Lost iff the bit changes
/// one full sweep over the addresses 0..n with outcome o(a)
pub open spec fn sweep(stations: Set<int>, o: spec_fn(int) -> bool, n: int) -> Set<int>
    decreases n
{
    if n <= 0 { stations } else { after(sweep(stations, o, n - 1), n - 1, o(n - 1)) }
}
pub proof fn lemma_sweep(stations: Set<int>, o: spec_fn(int) -> bool, n: int)
    requires 0 <= n,
    ensures
        forall|a: int| 0 <= a < n ==> (#[trigger] sweep(stations, o, n).contains(a) <==> o(a)),
        forall|a: int| !(0 <= a < n) ==> (#[trigger] sweep(stations, o, n).contains(a) <==> stations.contains(a)),
    decreases n
{
    if n > 0 {
        lemma_sweep(stations, o, n - 1);
        let prev = sweep(stations, o, n - 1);
        assert forall|a: int| 0 <= a < n implies (#[trigger] sweep(stations, o, n).contains(a) <==> o(a)) by {
            if a == n - 1 { } else { assert(prev.contains(a) <==> o(a)); }
        }
        assert forall|a: int| !(0 <= a < n) implies (#[trigger] sweep(stations, o, n).contains(a) <==> stations.contains(a)) by {
            assert(prev.contains(a) <==> stations.contains(a));
        }
    }
}
/// after one full sweep over 0..=125 the set is exactly the responders; a second identical sweep raises no event
pub proof fn lemma_two_sweeps(stations: Set<int>, o: spec_fn(int) -> bool)
    requires forall|a: int| stations.contains(a) ==> 0 <= a < 126,
    ensures
        forall|a: int| #[trigger] sweep(stations, o, 126).contains(a) <==> (0 <= a < 126 && o(a)),
        forall|a: int| 0 <= a < 126 ==> !event(sweep(sweep(stations, o, 126), o, a), a, #[trigger] o(a)),
{
    lemma_sweep(stations, o, 126);
    let s1 = sweep(stations, o, 126);
    assert forall|a: int| 0 <= a < 126 implies !event(sweep(s1, o, a), a, #[trigger] o(a)) by {
        lemma_sweep(s1, o, a);
    }
}
}

pub mod dpcycle {
use vstd::prelude::*;
// ---- C14.cycle: transcription of the DpMaster cycle-index contract (harnesses c14_transmit_cycle / c14_receive_reply_route):
// a "turn" of slot i ends when the peripheral declines or its reply / time-out sequence ends; the index then moves to the
// next occupied slot, or the cycle completes and the index returns to the first slot.
/// visit order of one cycle starting at index i: the occupied slots at or after i, in slot order
pub open spec fn visits(occ: Seq<bool>, i: int) -> Seq<int> decreases occ.len() - i
{
    if i < 0 || i >= occ.len() { Seq::empty() } else if occ[i] { seq![i] + visits(occ, i + 1) } else { visits(occ, i + 1) }
}
/// every occupied slot at or after i has exactly one turn, in slot order (strictly increasing), and only occupied slots do
pub proof fn lemma_cycle(occ: Seq<bool>, i: int)
    requires 0 <= i,
    ensures
        forall|k: int| 0 <= k < visits(occ, i).len() ==> i <= #[trigger] visits(occ, i)[k] < occ.len() && occ[visits(occ, i)[k]],
        forall|k: int, l: int| 0 <= k < l < visits(occ, i).len() ==> visits(occ, i)[k] < visits(occ, i)[l],
        forall|s: int| i <= s < occ.len() && occ[s] ==> exists|k: int| 0 <= k < visits(occ, i).len() && visits(occ, i)[k] == s,
    decreases occ.len() - i
{
    if i < occ.len() {
        lemma_cycle(occ, i + 1);
        let v = visits(occ, i);
        let w = visits(occ, i + 1);
        if occ[i] {
            assert(v =~= seq![i] + w);
            assert forall|s: int| i <= s < occ.len() && occ[s] implies exists|k: int| 0 <= k < v.len() && v[k] == s by {
                if s == i { assert(v[0] == i); }
                else {
                    let k = choose|k: int| 0 <= k < w.len() && w[k] == s;
                    assert(v[k + 1] == s);
                }
            }
            assert forall|k: int, l: int| 0 <= k < l < v.len() implies v[k] < v[l] by {
                if k == 0 { assert(v[l] == w[l - 1]); } else { assert(v[k] == w[k - 1] && v[l] == w[l - 1]); }
            }
            assert forall|k: int| 0 <= k < v.len() implies i <= #[trigger] v[k] < occ.len() && occ[v[k]] by {
                if k > 0 { assert(v[k] == w[k - 1]); }
            }
        } else {
            assert(v =~= w);
        }
    }
}
}
