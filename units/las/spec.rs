pub mod prims {
use vstd::prelude::*;
//@include ../common/prims_base.rs
//@include ../common/prims_las.rs
}
pub mod spec {
use vstd::prelude::*;
use super::prims::*;
use super::code::*;

//@include spec_body.rs
}
