// C02: cyclic neighbours of t in the set S of active stations
pub open spec fn in_cyc(sa: int, da: int, i: int) -> bool { if da > sa { sa <= i < da } else { i >= sa || i < da } }
pub open spec fn strictly_between(sa: int, da: int, i: int) -> bool { if da > sa { sa < i < da } else { i > sa || i < da } }
pub open spec fn upd(s: Set<int>, sa: int, da: int) -> Set<int> { s.filter(|i: int| !in_cyc(sa, da, i)).insert(sa) }
pub open spec fn is_succ(s: Set<int>, t: int, n: int) -> bool {
    if exists|i: int| i > t && s.contains(i) { n > t && s.contains(n) && forall|i: int| t < i < n ==> !s.contains(i) }
    else if exists|i: int| s.contains(i) { s.contains(n) && forall|i: int| i < n ==> !s.contains(i) }
    else { n == t }
}
pub open spec fn is_pred(s: Set<int>, t: int, p: int) -> bool {
    if exists|i: int| i < t && s.contains(i) { p < t && s.contains(p) && forall|i: int| p < i < t ==> !s.contains(i) }
    else if exists|i: int| s.contains(i) { s.contains(p) && forall|i: int| i > p ==> !s.contains(i) }
    else { p == t }
}
pub open spec fn las(r: TokenRing) -> Set<int> { r.active_stations.view() }
pub open spec fn ring_wf(r: TokenRing) -> bool {
    r.this_station <= 127
    && is_succ(las(r), r.this_station as int, r.next_station as int)
    && is_pred(las(r), r.this_station as int, r.previous_station as int)
}
pub open spec fn verified(s: Set<int>, sa: int, da: int) -> bool {
    s.contains(sa) && s.contains(da) && forall|i: int| s.contains(i) ==> !strictly_between(sa, da, i)
}

// Justifies the Kani contract stub of witness_token_pass for the station's own pass TS -> NS: when NS is the
// cyclic successor of TS in a LAS that contains TS, the update leaves the LAS (hence NS and PS) unchanged.
pub proof fn lemma_own_pass_keeps_las(s: Set<int>, t: int, n: int)
    requires
        s.contains(t), is_succ(s, t, n), 0 <= t <= 127,
        forall|i: int| s.contains(i) ==> 0 <= i < 128,
    ensures
        upd(s, t, n) =~= s,
{
    assert forall|i: int| upd(s, t, n).contains(i) <==> s.contains(i) by {
        if s.contains(i) && in_cyc(t, n, i) && i != t {
            // i would be a member strictly between t and its cyclic successor n: impossible
            if n > t { assert(t < i < n); }
        }
    }
}
