pub mod prims {
use vstd::prelude::*;
//@include ../common/prims_base.rs
// abstract stand-ins (R8) for managed::ManagedSlice<u8> and bitvec::BitSlice<u8>
#[verifier::external_body]
pub struct VBuf<'a> { s: &'a mut [u8] }
impl<'a> View for VBuf<'a> {
    type V = Seq<u8>;
    uninterp spec fn view(&self) -> Seq<u8>;
}
impl<'a> VBuf<'a> {
    #[verifier::external_body]
    pub fn len(&self) -> (r: usize)
        ensures r == self@.len(),
    { self.s.len() }
    #[verifier::external_body]
    pub fn verif_slice_to(&self, n: usize) -> (r: &[u8])
        requires n <= self@.len(),
        ensures r@ == self@.subrange(0, n as int),
    { &self.s[..n] }
    #[verifier::external_body]
    pub fn verif_copy_prefix(&mut self, buf: &[u8])
        requires buf@.len() <= old(self)@.len(),
        ensures final(self)@.len() == old(self)@.len(),
            final(self)@.subrange(0, buf@.len() as int) == buf@,
            final(self)@.subrange(buf@.len() as int, old(self)@.len() as int) == old(self)@.subrange(buf@.len() as int, old(self)@.len() as int),
    { self.s[..buf.len()].copy_from_slice(buf) }
}
pub struct VBits<'a> { pub bytes: &'a [u8] }
pub fn verif_bits_from_slice<'a>(s: &'a [u8]) -> (r: VBits<'a>)
    ensures r.bytes@ == s@,
{ VBits { bytes: s } }
}

pub mod bits {
use vstd::prelude::*;
pub broadcast proof fn lemma_hdr_bits(h: u8)
    ensures
        #![trigger (h >> 6)]
        (h >> 6) <= 3,
        (h & 0x3fu8) <= 63,
        (h >> 6) == h / 64,
        (h & 0x3fu8) == h % 64,
{
    assert((h >> 6) <= 3 && (h & 0x3fu8) <= 63 && (h >> 6) == h / 64 && (h & 0x3fu8) == h % 64) by (bit_vector);
}
}
pub mod bits2 {
use vstd::prelude::*;
pub broadcast proof fn lemma_shr5(b: u8)
    ensures #![trigger (b >> 5)] (b >> 5) == b / 32,
{ assert((b >> 5) == b / 32) by (bit_vector); }
pub broadcast proof fn lemma_and1f(b: u8)
    ensures #![trigger (b & 0x1fu8)] (b & 0x1fu8) == b % 32,
{ assert((b & 0x1fu8) == b % 32) by (bit_vector); }
pub broadcast proof fn lemma_and3f(b: u8)
    ensures #![trigger (b & 0x3fu8)] (b & 0x3fu8) == b % 64,
{ assert((b & 0x3fu8) == b % 64) by (bit_vector); }
pub broadcast proof fn lemma_and40(b: u8)
    ensures #![trigger (b & 0x40u8)] ((b & 0x40u8) != 0) == (b / 64 % 2 == 1),
{ assert(((b & 0x40u8) != 0) == (b / 64 % 2 == 1)) by (bit_vector); }
pub broadcast proof fn lemma_and80(b: u8)
    ensures #![trigger (b & 0x80u8)] ((b & 0x80u8) != 0) == (b >= 128),
{ assert(((b & 0x80u8) != 0) == (b >= 128)) by (bit_vector); }
}
pub mod seqs {
use vstd::prelude::*;
pub broadcast proof fn lemma_sub_sub(s: Seq<u8>, a: int, b: int, c: int, d: int)
    requires 0 <= a <= b <= s.len(), 0 <= c <= d <= b - a,
    ensures #[trigger] s.subrange(a, b).subrange(c, d) == s.subrange(a + c, a + d),
{
    assert(s.subrange(a, b).subrange(c, d) =~= s.subrange(a + c, a + d));
}
}

pub mod spec {
use vstd::prelude::*;
use super::prims::*;
use super::code::*;

// C17: invariant of the container and the raw view
pub open spec fn diag_wf(d: ExtendedDiagnostics) -> bool { d.length <= d.buffer@.len() }
pub open spec fn raw(d: ExtendedDiagnostics) -> Seq<u8> { d.buffer@.subrange(0, d.length as int) }

// block kinds by the two top bits of the header (statement: identifier 01, channel 10, device 00, 11 reserved)
pub open spec fn blk_kind(h: u8) -> int { (h / 64) as int }
pub open spec fn blk_len(h: u8) -> int { (h % 64) as int }
// a well-formed block starts at c in r and has this total length; 0 = malformed / cut off / reserved
pub open spec fn block_total(r: Seq<u8>, c: int) -> int {
    let h = r[c];
    let rem = r.len() - c;
    if blk_kind(h) == 2 { if rem >= 3 { 3 } else { 0 } }
    else if blk_kind(h) == 3 { 0 }
    else { if blk_len(h) >= 1 && blk_len(h) <= rem { blk_len(h) } else { 0 } }
}
pub open spec fn dtype_of(b: u8) -> ChannelDataType {
    let k = b / 32;
    if k == 1 { ChannelDataType::Bit } else if k == 2 { ChannelDataType::Bit2 } else if k == 3 { ChannelDataType::Bit4 }
    else if k == 4 { ChannelDataType::Byte } else if k == 5 { ChannelDataType::Word } else if k == 6 { ChannelDataType::DWord }
    else { ChannelDataType::Invalid }
}
pub open spec fn cherr_of(b: u8) -> ChannelError {
    let e = (b % 32) as u8;
    if e == 1 { ChannelError::ShortCircuit } else if e == 2 { ChannelError::UnderVoltage } else if e == 3 { ChannelError::OverVoltage }
    else if e == 4 { ChannelError::OverLoad } else if e == 5 { ChannelError::OverTemperature } else if e == 6 { ChannelError::LineBreak }
    else if e == 7 { ChannelError::UpperLimitOvershoot } else if e == 8 { ChannelError::LowerLimitUndershoot } else if e == 9 { ChannelError::Error }
    else if e >= 16 { ChannelError::Vendor(e) } else { ChannelError::Reserved(e) }
}
}
