pub mod prims {
use vstd::prelude::*;
//@include ../common/prims_base.rs
// abstract stand-in for `bitvec::BitArr!(for 128)`; unused by this unit's functions
#[verifier::external_body]
pub struct Las128 { _p: [usize; 2] }
}
pub mod spec {
use vstd::prelude::*;
// C12: own GAP = addresses strictly between TS and NS (cyclically), below HSA.
pub open spec fn in_gap(a: int, ts: int, ns: int, hsa: int) -> bool {
    0 <= a < hsa && (if ns > ts { ts < a < ns } else if ns == ts { a != ts } else { a > ts || a < ns })
}
pub open spec fn succ_mod(c: int, hsa: int) -> int { if c == hsa - 1 { 0 } else { c + 1 } }
}
