pub mod prims {
use vstd::prelude::*;
//@include ../common/prims_base.rs
//@include ../common/prims_bytes.rs
use super::code::*;
// R8: `X.map(|v| v.map(|(v, s)| (v.into(), s)))` hoisted (closures without annotations carry no
// postcondition in Verus); body = original expression, contract assumed here, cross-checked by Kani.
#[verifier::external_body]
pub fn verif_map_into_TokenTelegram<'a>(x: Option<Result<(TokenTelegram, usize), ()>>) -> (r: Option<Result<(Telegram<'a>, usize), ()>>)
    ensures
        x is None <==> r is None,
        x == Some(Err::<(TokenTelegram, usize), ()>(())) <==> r == Some(Err::<(Telegram<'a>, usize), ()>(())),
        x matches Some(Ok((v, s))) ==> r == Some(Ok::<(Telegram<'a>, usize), ()>((Telegram::Token(v), s))),
{ x.map(|v| v.map(|(v, s)| (v.into(), s))) }
#[verifier::external_body]
pub fn verif_map_into_DataTelegram<'a>(x: Option<Result<(DataTelegram<'a>, usize), ()>>) -> (r: Option<Result<(Telegram<'a>, usize), ()>>)
    ensures
        x is None <==> r is None,
        x == Some(Err::<(DataTelegram<'a>, usize), ()>(())) <==> r == Some(Err::<(Telegram<'a>, usize), ()>(())),
        x matches Some(Ok((v, s))) ==> r == Some(Ok::<(Telegram<'a>, usize), ()>((Telegram::Data(v), s))),
{ x.map(|v| v.map(|(v, s)| (v.into(), s))) }
}

// ------------------------------------------------------------------------------------------
// Bit-vector facts (broadcast so that no hint is needed inside the extracted function bodies)
pub mod bits {
use vstd::prelude::*;

pub broadcast proof fn lemma_ext_clear(x: u8)
    ensures
        #![trigger (x & 0x80u8)]
        (x & 0x80u8) == 0 ==> (x & !0x80u8) == x,
        (x & !0x80u8) < 128,
        (x & 0x80u8) == 0 <==> x < 128,
{
    assert((x & 0x80u8) == 0 ==> (x & !0x80u8) == x) by (bit_vector);
    assert((x & !0x80u8) < 128) by (bit_vector);
    assert((x & 0x80u8) == 0 <==> x < 128) by (bit_vector);
}

pub broadcast proof fn lemma_ext_clear2(x: u8)
    ensures
        #![trigger (x & !0x80u8)]
        (x & !0x80u8) < 128,
        x >= 128 ==> (x & !0x80u8) == x - 128,
        x < 128 ==> (x & !0x80u8) == x,
{
    assert((x & !0x80u8) < 128) by (bit_vector);
    assert(x >= 128 ==> (x & !0x80u8) == x - 128) by (bit_vector);
    assert(x < 128 ==> (x & !0x80u8) == x) by (bit_vector);
}

pub broadcast proof fn lemma_and7f(x: u8)
    ensures
        #![trigger (x & 0x7fu8)]
        (x & 0x7fu8) == (x & !0x80u8),
{
    assert((x & 0x7fu8) == (x & !0x80u8)) by (bit_vector);
}

pub broadcast proof fn lemma_or_ext(x: u8)
    requires x < 128,
    ensures
        #![trigger (x | 0x80u8)]
        (x | 0x80u8) == x + 128,
{
    assert(x < 128 ==> (x | 0x80u8) == x + 128) by (bit_vector);
}

pub broadcast proof fn lemma_or_zero(x: u8)
    ensures
        #![trigger (x | 0x00u8)]
        (x | 0x00u8) == x,
{
    assert((x | 0x00u8) == x) by (bit_vector);
}
}

pub mod seqs {
use vstd::prelude::*;
pub broadcast proof fn lemma_sub_sub(s: Seq<u8>, a: int, b: int, c: int, d: int)
    requires 0 <= a <= b <= s.len(), 0 <= c <= d <= b - a,
    ensures #[trigger] s.subrange(a, b).subrange(c, d) == s.subrange(a + c, a + d),
{
    assert(s.subrange(a, b).subrange(c, d) =~= s.subrange(a + c, a + d));
}
pub broadcast proof fn lemma_update_outside(s: Seq<u8>, i: int, v: u8, a: int, b: int)
    requires 0 <= a <= b <= s.len(), 0 <= i < s.len(), i < a || i >= b,
    ensures #[trigger] s.update(i, v).subrange(a, b) == s.subrange(a, b),
{
    assert(s.update(i, v).subrange(a, b) =~= s.subrange(a, b));
}
}

// ------------------------------------------------------------------------------------------
// Specs written from the property statements (C08, C09, C10) and the PROFIBUS frame format
pub mod spec {
use vstd::prelude::*;
use super::prims::*;
use super::code::*;

// ---- function code tables (C09.fc, C08.enc)
pub open spec fn req_code(r: RequestType) -> u8 {
    match r {
        RequestType::ClockValue => 0x80u8,
        RequestType::TimeEvent => 0u8,
        RequestType::SdaLow => 3u8,
        RequestType::SdnLow => 4u8,
        RequestType::SdaHigh => 5u8,
        RequestType::SdnHigh => 6u8,
        RequestType::MulticastSrd => 7u8,
        RequestType::FdlStatus => 9u8,
        RequestType::SrdLow => 12u8,
        RequestType::SrdHigh => 13u8,
        RequestType::Ident => 14u8,
        RequestType::LsapStatus => 15u8,
    }
}
pub open spec fn req_of_code(b: u8) -> Option<RequestType> {
    if b == 0x80 { Some(RequestType::ClockValue) } else if b == 0 { Some(RequestType::TimeEvent) }
    else if b == 3 { Some(RequestType::SdaLow) } else if b == 4 { Some(RequestType::SdnLow) }
    else if b == 5 { Some(RequestType::SdaHigh) } else if b == 6 { Some(RequestType::SdnHigh) }
    else if b == 7 { Some(RequestType::MulticastSrd) } else if b == 9 { Some(RequestType::FdlStatus) }
    else if b == 12 { Some(RequestType::SrdLow) } else if b == 13 { Some(RequestType::SrdHigh) }
    else if b == 14 { Some(RequestType::Ident) } else if b == 15 { Some(RequestType::LsapStatus) }
    else { None }
}
pub open spec fn state_code(s: ResponseState) -> u8 {
    match s {
        ResponseState::Slave => 0u8,
        ResponseState::MasterNotReady => 1u8,
        ResponseState::MasterWithoutToken => 2u8,
        ResponseState::MasterInRing => 3u8,
    }
}
pub open spec fn state_of_code(b: u8) -> Option<ResponseState> {
    if b == 0 { Some(ResponseState::Slave) } else if b == 1 { Some(ResponseState::MasterNotReady) }
    else if b == 2 { Some(ResponseState::MasterWithoutToken) } else if b == 3 { Some(ResponseState::MasterInRing) }
    else { None }
}
pub open spec fn status_code(s: ResponseStatus) -> u8 {
    match s {
        ResponseStatus::Ok => 0u8,
        ResponseStatus::UserError => 1u8,
        ResponseStatus::NoResources => 2u8,
        ResponseStatus::SapNotEnabled => 3u8,
        ResponseStatus::DataLow => 8u8,
        ResponseStatus::NoDataReady => 9u8,
        ResponseStatus::DataHigh => 10u8,
        ResponseStatus::NotReceivedDataLow => 12u8,
        ResponseStatus::NotReceivedDataHigh => 13u8,
    }
}
pub open spec fn status_of_code(b: u8) -> Option<ResponseStatus> {
    if b == 0 { Some(ResponseStatus::Ok) } else if b == 1 { Some(ResponseStatus::UserError) }
    else if b == 2 { Some(ResponseStatus::NoResources) } else if b == 3 { Some(ResponseStatus::SapNotEnabled) }
    else if b == 8 { Some(ResponseStatus::DataLow) } else if b == 9 { Some(ResponseStatus::NoDataReady) }
    else if b == 10 { Some(ResponseStatus::DataHigh) } else if b == 12 { Some(ResponseStatus::NotReceivedDataLow) }
    else if b == 13 { Some(ResponseStatus::NotReceivedDataHigh) } else { None }
}
// FCB/FCV table of C08: First=(FCV 0,FCB 1), High=(1,1), Low=(1,0), Inactive=(0,0)
pub open spec fn fcv_of(f: FrameCountBit) -> bool { f == FrameCountBit::High || f == FrameCountBit::Low }
pub open spec fn fcb_of(f: FrameCountBit) -> bool { f == FrameCountBit::First || f == FrameCountBit::High }
pub open spec fn b2u8(b: bool) -> u8 { if b { 1u8 } else { 0u8 } }

pub open spec fn fc_byte(fc: FunctionCode) -> u8 {
    match fc {
        FunctionCode::Request { fcb, req } =>
            (1u8 << 6) | req_code(req) | (b2u8(fcv_of(fcb)) << 4) | (b2u8(fcb_of(fcb)) << 5),
        FunctionCode::Response { state, status } => (state_code(state) << 4) | status_code(status),
    }
}
pub open spec fn fc_of_byte(b: u8) -> Result<FunctionCode, FcParseError> {
    if b & (1u8 << 6) != 0 {
        match req_of_code(b & 0x8Fu8) {
            Some(req) => Ok(FunctionCode::Request {
                fcb: if b & (1u8 << 4) != 0 { if b & (1u8 << 5) != 0 { FrameCountBit::High } else { FrameCountBit::Low } }
                     else { if b & (1u8 << 5) != 0 { FrameCountBit::First } else { FrameCountBit::Inactive } },
                req }),
            None => Err(FcParseError::InvalidRequestType),
        }
    } else {
        match state_of_code((b & 0x30u8) >> 4) {
            None => Err(FcParseError::InvalidResponseState),
            Some(state) => match status_of_code(b & 0x0Fu8) {
                None => Err(FcParseError::InvalidResponseStatus),
                Some(status) => Ok(FunctionCode::Response { state, status }),
            }
        }
    }
}

// ---- From conversions (Telegram wraps the three telegram kinds unchanged)
impl<'a> vstd::std_specs::convert::FromSpecImpl<DataTelegram<'a>> for Telegram<'a> {
    open spec fn obeys_from_spec() -> bool { true }
    open spec fn from_spec(v: DataTelegram<'a>) -> Self { Telegram::Data(v) }
}
impl<'a> vstd::std_specs::convert::FromSpecImpl<TokenTelegram> for Telegram<'a> {
    open spec fn obeys_from_spec() -> bool { true }
    open spec fn from_spec(v: TokenTelegram) -> Self { Telegram::Token(v) }
}
impl<'a> vstd::std_specs::convert::FromSpecImpl<ShortConfirmation> for Telegram<'a> {
    open spec fn obeys_from_spec() -> bool { true }
    open spec fn from_spec(v: ShortConfirmation) -> Self { Telegram::ShortConfirmation(v) }
}

// ---- frame format (C09)
pub open spec fn nsap(h: DataTelegramHeader) -> int {
    (if h.dsap is Some { 1int } else { 0int }) + (if h.ssap is Some { 1int } else { 0int })
}
pub open spec fn le_of(h: DataTelegramHeader, n: int) -> int { n + nsap(h) + 3 }
pub open spec fn frame_len(le: int) -> int { if le == 3 || le == 11 { le + 3 } else { le + 6 } }
pub open spec fn hdr_off(le: int) -> int { if le == 3 || le == 11 { 0 } else { 3 } }
pub open spec fn pdu_off(h: DataTelegramHeader, n: int) -> int { hdr_off(le_of(h, n)) + 4 + nsap(h) }
// f is exactly the frame for header h with a pdu of n bytes (the pdu bytes are those in the window)
pub open spec fn is_frame(f: Seq<u8>, h: DataTelegramHeader, n: int) -> bool {
    let le = le_of(h, n);
    let off = hdr_off(le);
    &&& f.len() == frame_len(le)
    &&& f[0] == (if le == 3 { SD1 } else if le == 11 { SD3 } else { SD2 })
    &&& (off == 3 ==> f[1] == le && f[2] == le && f[3] == SD2)
    &&& f[off + 1] == h.da + (if h.dsap is Some { 128int } else { 0int })
    &&& f[off + 2] == h.sa + (if h.ssap is Some { 128int } else { 0int })
    &&& f[off + 3] == fc_byte(h.fc)
    &&& (h.dsap matches Some(d) ==> f[off + 4] == d)
    &&& (h.ssap matches Some(x) ==> f[off + 4 + (if h.dsap is Some { 1int } else { 0int })] == x)
    &&& f[off + 1 + le] == sum8(f.subrange(off + 1, off + 1 + le))
    &&& f[off + 2 + le] == ED
}

// ---- decoder acceptance (C10)
pub enum Dec {
    NeedMore,
    Reject,
    Accept { da: u8, sa: u8, dsap: Option<u8>, ssap: Option<u8>, fcb: u8, pdu_off: int, pdu_len: int, total: int },
}
pub open spec fn dec_body(b: Seq<u8>, off: int, n: int, total: int) -> Dec {
    if b.len() < total { Dec::NeedMore } else {
        let da = b[off + 1];
        let sa = b[off + 2];
        let fcb = b[off + 3];
        let hd = da >= 128;
        let hs = sa >= 128;
        let k = (if hd { 1int } else { 0int }) + (if hs { 1int } else { 0int });
        if !(fc_of_byte(fcb) is Ok) { Dec::Reject }
        else if n < k { Dec::Reject }
        else if b[off + 4 + n] != sum8(b.subrange(off + 1, off + 4 + n)) { Dec::Reject }
        else if b[off + 5 + n] != ED { Dec::Reject }
        else { Dec::Accept {
            da: if hd { (da - 128) as u8 } else { da },
            sa: if hs { (sa - 128) as u8 } else { sa },
            dsap: if hd { Some(b[off + 4]) } else { None },
            ssap: if hs { Some(b[off + 4 + (if hd { 1int } else { 0int })]) } else { None },
            fcb, pdu_off: off + 4 + k, pdu_len: n - k, total } }
    }
}
pub open spec fn decode_data(b: Seq<u8>) -> Dec {
    if b.len() < 6 { Dec::NeedMore }
    else if b[0] == SD1 { dec_body(b, 0, 0, 6) }
    else if b[0] == SD3 { dec_body(b, 0, 8, 14) }
    else if b[0] == SD2 {
        // both length bytes equal, >= 3, and both start delimiters correct (C10)
        if b[1] != b[2] || b[1] < 3 || b[3] != SD2 { Dec::Reject }
        else { dec_body(b, 3, b[1] as int - 3, b[1] as int + 6) }
    } else { Dec::Reject }
}
// what the full decoder may return
pub enum TDec { NeedMore, Reject, Sc, Token { da: u8, sa: u8 }, Data(Dec) }
pub open spec fn decode(b: Seq<u8>) -> TDec {
    if b.len() == 0 { TDec::NeedMore }
    else if b[0] == SC { TDec::Sc }
    else if b[0] == SD4 { if b.len() < 3 { TDec::NeedMore } else { TDec::Token { da: b[1], sa: b[2] } } }
    else if b[0] == SD1 || b[0] == SD2 || b[0] == SD3 {
        match decode_data(b) { Dec::NeedMore => TDec::NeedMore, Dec::Reject => TDec::Reject, d => TDec::Data(d) }
    } else { TDec::Reject }
}
pub open spec fn consumed(d: TDec) -> int {
    match d { TDec::Sc => 1, TDec::Token { .. } => 3, TDec::Data(Dec::Accept { total, .. }) => total, _ => 0 }
}
// the exec data telegram t with length n is exactly what `d` describes, relative to input b
pub open spec fn data_matches(b: Seq<u8>, d: Dec, t: DataTelegram, n: usize) -> bool {
    d matches Dec::Accept { da, sa, dsap, ssap, fcb, pdu_off, pdu_len, total }
    && t.h.da == da && t.h.sa == sa && t.h.dsap == dsap && t.h.ssap == ssap
    && fc_of_byte(fcb) == Ok::<FunctionCode, FcParseError>(t.h.fc)
    && n == total && total <= b.len()
    && 0 <= pdu_off && pdu_off + pdu_len <= total
    && t.pdu@ == b.subrange(pdu_off, pdu_off + pdu_len)
}
}

// ------------------------------------------------------------------------------------------
pub mod lemmas {
use vstd::prelude::*;
use super::prims::*;
use super::code::*;
use super::spec::*;

// C09.fc: from(to(fc)) == fc for every request/response combination
proof fn lemma_fc_bits_req(r: u8, v: u8, c: u8)
    requires r & 0x70u8 == 0, v <= 1, c <= 1,
    ensures ({
        let x = (1u8 << 6) | r | (v << 4) | (c << 5);
        &&& x & (1u8 << 6) != 0
        &&& (x & (1u8 << 4) != 0 <==> v == 1)
        &&& (x & (1u8 << 5) != 0 <==> c == 1)
        &&& x & 0x8Fu8 == r
    }),
{
    assert(r & 0x70u8 == 0 && v <= 1 && c <= 1 ==> ({
        let x = (1u8 << 6) | r | (v << 4) | (c << 5);
        &&& x & (1u8 << 6) != 0
        &&& (x & (1u8 << 4) != 0 <==> v == 1)
        &&& (x & (1u8 << 5) != 0 <==> c == 1)
        &&& x & 0x8Fu8 == r
    })) by (bit_vector);
}
proof fn lemma_fc_bits_resp(s: u8, t: u8)
    requires s <= 3, t <= 15,
    ensures ({
        let x = (s << 4) | t;
        &&& x & (1u8 << 6) == 0
        &&& (x & 0x30u8) >> 4 == s
        &&& x & 0x0Fu8 == t
    }),
{
    assert(s <= 3 && t <= 15 ==> ({
        let x = (s << 4) | t;
        &&& x & (1u8 << 6) == 0
        &&& (x & 0x30u8) >> 4 == s
        &&& x & 0x0Fu8 == t
    })) by (bit_vector);
}
pub proof fn lemma_req_codes(r: RequestType)
    ensures req_code(r) & 0x70u8 == 0, req_of_code(req_code(r)) == Some(r),
{
    assert(0x80u8 & 0x70u8 == 0 && 0u8 & 0x70u8 == 0 && 3u8 & 0x70u8 == 0 && 4u8 & 0x70u8 == 0 && 5u8 & 0x70u8 == 0
        && 6u8 & 0x70u8 == 0 && 7u8 & 0x70u8 == 0 && 9u8 & 0x70u8 == 0 && 12u8 & 0x70u8 == 0 && 13u8 & 0x70u8 == 0
        && 14u8 & 0x70u8 == 0 && 15u8 & 0x70u8 == 0) by (bit_vector);
}
pub proof fn lemma_fc_roundtrip(fc: FunctionCode)
    ensures fc_of_byte(fc_byte(fc)) == Ok::<FunctionCode, FcParseError>(fc),
{
    match fc {
        FunctionCode::Request { fcb, req } => {
            lemma_req_codes(req);
            lemma_fc_bits_req(req_code(req), b2u8(fcv_of(fcb)), b2u8(fcb_of(fcb)));
        }
        FunctionCode::Response { state, status } => {
            lemma_fc_bits_resp(state_code(state), status_code(status));
        }
    }
}
// every byte decodes to at most the function code that encodes back to it (bit 7 of a response is ignored)
pub proof fn lemma_fc_inverse(b: u8)
    ensures fc_of_byte(b) matches Ok(fc) ==> fc_byte(fc) == (if b & (1u8 << 6) != 0 { b } else { b & 0x7Fu8 }),
{
    if b & (1u8 << 6) != 0 {
        let r = b & 0x8Fu8;
        let v: u8 = if b & (1u8 << 4) != 0 { 1 } else { 0 };
        let c: u8 = if b & (1u8 << 5) != 0 { 1 } else { 0 };
        assert(b & (1u8 << 6) != 0 ==> ((1u8 << 6) | (b & 0x8Fu8)
            | ((if b & (1u8 << 4) != 0 { 1u8 } else { 0u8 }) << 4) | ((if b & (1u8 << 5) != 0 { 1u8 } else { 0u8 }) << 5)) == b) by (bit_vector);
        if let Some(req) = req_of_code(r) {
            assert(req_code(req) == r);
        }
    } else {
        let s = (b & 0x30u8) >> 4;
        let t = b & 0x0Fu8;
        assert(b & (1u8 << 6) == 0 ==> ((((b & 0x30u8) >> 4) << 4) | (b & 0x0Fu8)) == b & 0x7Fu8) by (bit_vector);
        if let Some(state) = state_of_code(s) {
            assert(state_code(state) == s);
            if let Some(status) = status_of_code(t) {
                assert(status_code(status) == t);
            }
        }
    }
}

// C09.rt: any buffer that starts with the frame of (h, pdu window) decodes to exactly that telegram and length
pub proof fn lemma_roundtrip(b: Seq<u8>, h: DataTelegramHeader, n: int)
    requires
        h.da < 128, h.sa < 128, 0 <= n, le_of(h, n) <= 249,
        b.len() >= frame_len(le_of(h, n)),
        is_frame(b.subrange(0, frame_len(le_of(h, n))), h, n),
    ensures
        decode_data(b) == (Dec::Accept { da: h.da, sa: h.sa, dsap: h.dsap, ssap: h.ssap, fcb: fc_byte(h.fc),
            pdu_off: pdu_off(h, n), pdu_len: n, total: frame_len(le_of(h, n)) }),
        fc_of_byte(fc_byte(h.fc)) == Ok::<FunctionCode, FcParseError>(h.fc),
        decode(b) == TDec::Data(decode_data(b)),
{
    lemma_fc_roundtrip(h.fc);
    let le = le_of(h, n);
    let total = frame_len(le);
    let off = hdr_off(le);
    let f = b.subrange(0, total);
    assert(forall|i: int| 0 <= i < total ==> f[i] == b[i]);
    assert(f.subrange(off + 1, off + 1 + le) =~= b.subrange(off + 1, off + 1 + le));
}
pub proof fn lemma_roundtrip_token(b: Seq<u8>, da: u8, sa: u8)
    requires b.len() >= 3, b[0] == SD4, b[1] == da, b[2] == sa,
    ensures decode(b) == (TDec::Token { da, sa }), consumed(decode(b)) == 3,
{ }
pub proof fn lemma_roundtrip_sc(b: Seq<u8>)
    requires b.len() >= 1, b[0] == SC,
    ensures decode(b) == TDec::Sc, consumed(decode(b)) == 1,
{ }

pub proof fn lemma_sum8_update(s: Seq<u8>, i: int, x: u8)
    requires 0 <= i < s.len(),
    ensures sum8(s.update(i, x)) as int == (sum8(s) as int - s[i] as int + x as int + 256) % 256,
    decreases s.len(),
{
    let t = s.update(i, x);
    if i == s.len() - 1 {
        assert(t.drop_last() =~= s.drop_last());
    } else {
        assert(t.drop_last() =~= s.drop_last().update(i, x));
        lemma_sum8_update(s.drop_last(), i, x);
        assert(t.last() == s.last());
    }
}
pub proof fn lemma_sum8_changes(s: Seq<u8>, i: int, x: u8)
    requires 0 <= i < s.len(), x != s[i],
    ensures sum8(s.update(i, x)) != sum8(s),
{
    lemma_sum8_update(s, i, x);
}
// C10.corrupt for positions >= 1: a valid data frame with one substituted byte is rejected
pub proof fn lemma_corrupt(f: Seq<u8>, h: DataTelegramHeader, n: int, i: int, x: u8)
    requires
        h.da < 128, h.sa < 128, 0 <= n, le_of(h, n) <= 249,
        is_frame(f, h, n),
        1 <= i < f.len(), x != f[i],
    ensures
        decode_data(f.update(i, x)) == Dec::Reject,
        decode(f.update(i, x)) == TDec::Reject,
{
    lemma_fc_roundtrip(h.fc);
    let le = le_of(h, n);
    let total = frame_len(le);
    let off = hdr_off(le);
    let g = f.update(i, x);
    if off + 1 <= i < off + 1 + le {
        lemma_sum8_changes(f.subrange(off + 1, off + 1 + le), i - (off + 1), x);
        assert(g.subrange(off + 1, off + 1 + le) =~= f.subrange(off + 1, off + 1 + le).update(i - (off + 1), x));
    } else {
        assert(g.subrange(off + 1, off + 1 + le) =~= f.subrange(off + 1, off + 1 + le));
    }
}
// C10.corrupt position 0, single-bit errors: the four data/token/SC delimiters have pairwise Hamming
// distance >= 2, so one flipped bit in the first byte never yields another accepted telegram kind
pub proof fn lemma_corrupt_first_bit(f: Seq<u8>, h: DataTelegramHeader, n: int, bit: u8)
    requires
        h.da < 128, h.sa < 128, 0 <= n, le_of(h, n) <= 249,
        is_frame(f, h, n), bit < 8,
    ensures
        decode(f.update(0, f[0] ^ (1u8 << bit))) == TDec::Reject,
{
    let x = f[0] ^ (1u8 << bit);
    assert(bit < 8 ==> ({
        let m = 1u8 << bit;
        &&& 0x10u8 ^ m != 0x10u8 && 0x10u8 ^ m != 0x68u8 && 0x10u8 ^ m != 0xA2u8 && 0x10u8 ^ m != 0xDCu8 && 0x10u8 ^ m != 0xE5u8
        &&& 0x68u8 ^ m != 0x10u8 && 0x68u8 ^ m != 0x68u8 && 0x68u8 ^ m != 0xA2u8 && 0x68u8 ^ m != 0xDCu8 && 0x68u8 ^ m != 0xE5u8
        &&& 0xA2u8 ^ m != 0x10u8 && 0xA2u8 ^ m != 0x68u8 && 0xA2u8 ^ m != 0xA2u8 && 0xA2u8 ^ m != 0xDCu8 && 0xA2u8 ^ m != 0xE5u8
    })) by (bit_vector);
}
// ... and a corrupted short confirmation is never a *complete* other telegram
pub proof fn lemma_corrupt_sc(x: u8)
    requires x != SC,
    ensures !(decode(seq![x]) is Sc), !(decode(seq![x]) is Token), !(decode(seq![x]) is Data),
{ }

// C10.prefix: NeedMore only for proper prefixes; a verdict on a prefix is final
pub proof fn lemma_prefix_stable(b: Seq<u8>, k: int)
    requires 0 <= k <= b.len(), !(decode(b.subrange(0, k)) is NeedMore),
    ensures
        decode(b) == decode(b.subrange(0, k)),
{
    let p = b.subrange(0, k);
    assert(forall|i: int| 0 <= i < k ==> p[i] == b[i]);
    if p[0] == SD1 || p[0] == SD2 || p[0] == SD3 {
        if p[0] == SD1 {
            assert(p.subrange(1, 4) =~= b.subrange(1, 4));
        } else if p[0] == SD3 {
            assert(p.subrange(1, 12) =~= b.subrange(1, 12));
        } else if !(p[1] != p[2] || p[1] < 3 || p[3] != SD2) {
            let n = p[1] as int - 3;
            assert(p.subrange(4, 7 + n) =~= b.subrange(4, 7 + n));
        }
    }
}
pub open spec fn announced_len(b: Seq<u8>) -> int {
    if b.len() == 0 { 1 }
    else if b[0] == SD4 { 3 }
    else if b[0] == SD1 { 6 }
    else if b[0] == SD3 { 14 }
    else if b[0] == SD2 { if b.len() < 6 { 6 } else { b[1] as int + 6 } }
    else { 1 }
}
pub proof fn lemma_needmore_is_proper_prefix(b: Seq<u8>)
    requires decode(b) is NeedMore,
    ensures b.len() < announced_len(b),
{ }
}
