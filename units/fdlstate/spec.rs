pub mod prims {
use vstd::prelude::*;
//@include ../common/prims_base.rs
//@include ../common/prims_las.rs
}
pub mod spec {
use vstd::prelude::*;
use super::prims::*;
use super::code::*;
//@include ../las/spec_body.rs

// C11.accept: the token addressed to us is accepted immediately only from the registered predecessor,
// from anybody else only on the second consecutive offer
pub open spec fn accepts(st: State, ps: u8, sa: u8) -> bool {
    sa == ps || (st matches State::ActiveIdle { new_previous_station: Some(x), .. } && x == sa)
}
pub open spec fn fresh_use_token(now: Instant) -> State {
    State::UseToken { data: UseTokenData { token_time: now, first_app: None }, first_cycle_done: false }
}
// everything of the station except `state` and `token_ring` (frame of handle_telegram)
pub open spec fn same_rest(a: FdlActiveStation, b: FdlActiveStation) -> bool {
    a.p == b.p && a.connectivity_state == b.connectivity_state && a.gap_state == b.gap_state
    && a.last_bus_activity == b.last_bus_activity && a.pending_bytes == b.pending_bytes
    && a.last_token_time == b.last_token_time && a.end_token_hold_time == b.end_token_hold_time
    && a.next_application == b.next_application
}
}
