pub mod prims {
use vstd::prelude::*;
//@include ../common/prims_base.rs
#[verifier::external_body]
pub struct Las128 { _p: [usize; 2] }
}
pub mod spec {
use vstd::prelude::*;
use super::prims::*;
use super::code::*;
// ParamsOk (DESIGN II.5.1): what every Parameters value produced by the builder satisfies; the FDL step contracts
// (Kani group fdlstep) take it as precondition
pub open spec fn min_slot(b: Baudrate) -> int {
    match b { Baudrate::B500000 => 200, Baudrate::B1500000 => 300, Baudrate::B3000000 => 400, Baudrate::B6000000 => 600, Baudrate::B12000000 => 1000, _ => 100 }
}
pub open spec fn params_ok(p: Parameters) -> bool {
    &&& p.address <= 125
    &&& p.address < p.highest_station_address <= 126
    &&& 1 <= p.gap_wait_rotations <= 100
    &&& 1 <= p.max_retry_limit <= 15
    &&& p.slot_bits >= min_slot(p.baudrate)
    &&& 256 <= p.token_rotation_bits <= 16_777_960
    &&& p.min_tsdr_bits >= 11
}
}
