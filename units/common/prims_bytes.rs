// R8 helpers: the hoisted expression is the body; the contract is assumed here and cross-checked
// by Kani on the same expression (kani/prims.rs).
pub open spec fn sum8(s: Seq<u8>) -> u8
    decreases s.len()
{
    if s.len() == 0 { 0u8 } else { ((sum8(s.drop_last()) as int + s.last() as int) % 256) as u8 }
}

#[verifier::external_body]
pub fn verif_sum8(s: &[u8]) -> (r: u8)
    ensures r == sum8(s@),
{ s.iter().copied().fold(0, u8::wrapping_add) }

#[verifier::external_body]
pub fn verif_bool_to_usize(b: bool) -> (r: usize)
    ensures r == (if b { 1usize } else { 0usize }),
{ usize::from(b) }

#[verifier::external_body]
pub fn verif_fill_u8(s: &mut [u8], v: u8)
    ensures final(s)@.len() == old(s)@.len(), forall|i: int| 0 <= i < old(s)@.len() ==> final(s)@[i] == v,
{ s.fill(v) }
