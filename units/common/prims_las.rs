// Abstract stand-in (R8) for `bitvec::BitArr!(for 128)`: a set of indices below 128.
// Contracts assumed here, cross-checked by Kani against the real bitvec expressions (kani/prims.rs).
#[verifier::external_body]
pub struct Las128 { bits: [u64; 2] }
impl Las128 {
    pub uninterp spec fn view(&self) -> Set<int>;

    #[verifier::external_body]
    pub fn verif_zero() -> (r: Las128)
        ensures r.view() == Set::<int>::empty(),
    { unimplemented!() }
    #[verifier::external_body]
    pub fn verif_set(&mut self, i: usize, v: bool)
        requires i < 128,
        ensures final(self).view() == (if v { old(self).view().insert(i as int) } else { old(self).view().remove(i as int) }),
    { unimplemented!() }
    #[verifier::external_body]
    pub fn verif_get(&self, i: usize) -> (r: bool)
        requires i < 128,
        ensures r == self.view().contains(i as int),
    { unimplemented!() }
    #[verifier::external_body]
    pub fn verif_any(&self, a: usize, b: usize) -> (r: bool)
        requires a <= b <= 128,
        ensures r == (exists|i: int| a <= i < b && self.view().contains(i)),
    { unimplemented!() }
    #[verifier::external_body]
    pub fn verif_clear(&mut self, a: usize, b: usize)
        requires a <= b <= 128,
        ensures final(self).view() == old(self).view().filter(|i: int| !(a <= i < b)),
    { unimplemented!() }
    #[verifier::external_body]
    pub fn verif_first_above(&self, t: u8) -> (r: Option<u8>)
        ensures
            r matches Some(n) ==> n > t && self.view().contains(n as int) && (forall|i: int| t < i < n ==> !self.view().contains(i)),
            r is None ==> (forall|i: int| i > t ==> !self.view().contains(i)),
    { unimplemented!() }
    #[verifier::external_body]
    pub fn verif_last_below(&self, t: u8) -> (r: Option<u8>)
        ensures
            r matches Some(n) ==> n < t && self.view().contains(n as int) && (forall|i: int| n < i < t ==> !self.view().contains(i)),
            r is None ==> (forall|i: int| i < t ==> !self.view().contains(i)),
    { unimplemented!() }
    #[verifier::external_body]
    pub fn verif_first(&self) -> (r: Option<u8>)
        ensures
            r matches Some(n) ==> self.view().contains(n as int) && (forall|i: int| i < n ==> !self.view().contains(i)),
            r is None ==> (forall|i: int| !self.view().contains(i)),
    { unimplemented!() }
    #[verifier::external_body]
    pub fn verif_last(&self) -> (r: Option<u8>)
        ensures
            r matches Some(n) ==> self.view().contains(n as int) && (forall|i: int| i > n ==> !self.view().contains(i)),
            r is None ==> (forall|i: int| !self.view().contains(i)),
    { unimplemented!() }
}
// axiom of the primitive: members are indices of a 128-bit array
pub broadcast proof fn axiom_las_range(l: Las128, i: int)
    requires #[trigger] l.view().contains(i),
    ensures 0 <= i < 128,
{ admit(); }
