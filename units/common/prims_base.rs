// Helpers the rewrite rules R1-R3 refer to. Nothing here is repository code.
#[verifier::external_body]
pub fn verif_log<T: ?Sized>(x: &T) { }

pub fn verif_assert(c: bool)
    requires c,
{ }

#[verifier::external_body]
pub fn verif_unreachable() -> !
    requires false,
{ loop {} }
