#!/bin/sh
# Offline setup: warm the native-replay build cache (optional; checks rebuild it if absent).
cd "$(dirname "$0")" || exit 1
export CARGO_NET_OFFLINE=true
mkdir -p .cache evidence replays
python3 tools/native.py c12_gap 0 1 2 1 >/dev/null 2>&1 || true
exit 0
