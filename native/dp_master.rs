// helper for native oracles: a DpMasterState in Operate
use super::*;
pub fn vn_master_state() -> DpMasterState {
    DpMasterState { operating_state: OperatingState::Operate, last_global_control: None, cycle_state: CycleState::DataExchange(0), last_events: Default::default() }
}
