// Native oracles for private items of src/fdl/active.rs (appended as a child module of the
// scratch copy; never part of /repo).
use super::*;

fn station(ts: u8, ns: u8, hsa: u8) -> FdlActiveStation {
    let mut p = crate::fdl::Parameters::default();
    p.address = ts;
    p.highest_station_address = hsa;
    let mut fdl = FdlActiveStation::new(p);
    if ns != ts {
        // real API: makes `ns` the successor
        fdl.token_ring.set_next_station(ns);
    }
    fdl
}

fn in_gap(a: u8, ts: u8, ns: u8, hsa: u8) -> bool {
    a < hsa && (if ns > ts { ts < a && a < ns } else if ns == ts { a != ts } else { a > ts || a < ns })
}

fn gap_case(ts: u8, ns: u8, hsa: u8, cur: u8) -> Result<(), String> {
    let fdl = station(ts, ns, hsa);
    if fdl.token_ring.next_station() != ns {
        return Ok(()); // could not establish the pre-state through the API
    }
    let succ = if cur == hsa - 1 { 0 } else { cur + 1 };
    match fdl.next_gap_poll(cur) {
        GapState::DoPoll { current_address } => {
            if current_address != succ || !in_gap(current_address, ts, ns, hsa) {
                return Err(format!("DoPoll{{{current_address}}} but own GAP of TS={ts} NS={ns} HSA={hsa} does not contain it (succ of cur={cur} is {succ})"));
            }
        }
        GapState::Waiting { rotation_count } => {
            if rotation_count != 0 || in_gap(succ, ts, ns, hsa) {
                return Err(format!("Waiting{{{rotation_count}}} although {succ} is in the own GAP"));
            }
        }
    }
    Ok(())
}

/// C12.gap: args = [ts, ns, hsa, cur] replays one input; no args = enumeration.
pub fn c12_gap(args: &[String], _seed: u64) -> Vec<String> {
    let mut out = vec![];
    if args.len() == 4 {
        let v: Vec<u8> = args.iter().map(|s| s.parse().unwrap()).collect();
        let r = gap_case(v[0], v[1], v[2], v[3]);
        out.push(format!(
            "{{\"oracle\":\"c12_gap\",\"status\":\"{}\",\"input\":[{},{},{},{}],\"observed\":\"{}\"}}",
            if r.is_ok() { "pass" } else { "fail" }, v[0], v[1], v[2], v[3], r.err().unwrap_or_default()
        ));
        return out;
    }
    let mut n = 0u64;
    let mut fails = 0u64;
    let mut first: Option<(u8, u8, u8, u8, String)> = None;
    for hsa in (2u8..=24).chain([64, 125, 126]) {
        for ts in 0..hsa {
            for ns in 0..hsa {
                for cur in 0..hsa {
                    n += 1;
                    if let Err(e) = gap_case(ts, ns, hsa, cur) {
                        fails += 1;
                        if first.is_none() {
                            first = Some((ts, ns, hsa, cur, e));
                        }
                    }
                }
            }
        }
    }
    match first {
        Some((ts, ns, hsa, cur, e)) => out.push(format!(
            "{{\"oracle\":\"c12_gap\",\"status\":\"fail\",\"input\":[{ts},{ns},{hsa},{cur}],\"observed\":\"{e}\",\"evaluations\":{n},\"failing\":{fails}}}"
        )),
        None => out.push(format!("{{\"oracle\":\"c12_gap\",\"status\":\"pass\",\"evaluations\":{n},\"failing\":0}}")),
    }
    out
}
