// Native oracles for private items of src/fdl/active.rs (appended as a child module of the
// scratch copy; never part of /repo).
use super::*;

fn station(ts: u8, ns: u8, hsa: u8) -> FdlActiveStation {
    let mut p = crate::fdl::Parameters::default();
    p.address = ts;
    p.highest_station_address = hsa;
    let mut fdl = FdlActiveStation::new(p);
    if ns != ts {
        // real API: makes `ns` the successor
        fdl.token_ring.set_next_station(ns);
    }
    fdl
}

fn in_gap(a: u8, ts: u8, ns: u8, hsa: u8) -> bool {
    a < hsa && (if ns > ts { ts < a && a < ns } else if ns == ts { a != ts } else { a > ts || a < ns })
}

fn gap_case(ts: u8, ns: u8, hsa: u8, cur: u8) -> Result<(), String> {
    let fdl = station(ts, ns, hsa);
    if fdl.token_ring.next_station() != ns {
        return Ok(()); // could not establish the pre-state through the API
    }
    let succ = if cur == hsa - 1 { 0 } else { cur + 1 };
    match fdl.next_gap_poll(cur) {
        GapState::DoPoll { current_address } => {
            if current_address != succ || !in_gap(current_address, ts, ns, hsa) {
                return Err(format!("DoPoll{{{current_address}}} but own GAP of TS={ts} NS={ns} HSA={hsa} does not contain it (succ of cur={cur} is {succ})"));
            }
        }
        GapState::Waiting { rotation_count } => {
            if rotation_count != 0 || in_gap(succ, ts, ns, hsa) {
                return Err(format!("Waiting{{{rotation_count}}} although {succ} is in the own GAP"));
            }
        }
    }
    Ok(())
}

/// C12.gap: args = [ts, ns, hsa, cur] replays one input; no args = enumeration.
pub fn c12_gap(args: &[String], _seed: u64) -> Vec<String> {
    let mut out = vec![];
    if args.len() == 4 {
        let v: Vec<u8> = args.iter().map(|s| s.parse().unwrap()).collect();
        let r = gap_case(v[0], v[1], v[2], v[3]);
        out.push(format!(
            "{{\"oracle\":\"c12_gap\",\"status\":\"{}\",\"input\":[{},{},{},{}],\"observed\":\"{}\"}}",
            if r.is_ok() { "pass" } else { "fail" }, v[0], v[1], v[2], v[3], r.err().unwrap_or_default()
        ));
        return out;
    }
    let mut n = 0u64;
    let mut fails = 0u64;
    let mut first: Option<(u8, u8, u8, u8, String)> = None;
    for hsa in (2u8..=24).chain([64, 125, 126]) {
        for ts in 0..hsa {
            for ns in 0..hsa {
                for cur in 0..hsa {
                    n += 1;
                    if let Err(e) = gap_case(ts, ns, hsa, cur) {
                        fails += 1;
                        if first.is_none() {
                            first = Some((ts, ns, hsa, cur, e));
                        }
                    }
                }
            }
        }
    }
    match first {
        Some((ts, ns, hsa, cur, e)) => out.push(format!(
            "{{\"oracle\":\"c12_gap\",\"status\":\"fail\",\"input\":[{ts},{ns},{hsa},{cur}],\"observed\":\"{e}\",\"evaluations\":{n},\"failing\":{fails}}}"
        )),
        None => out.push(format!("{{\"oracle\":\"c12_gap\",\"status\":\"pass\",\"evaluations\":{n},\"failing\":0}}")),
    }
    out
}

// ---------------------------------------------------------------------------------------------------------
// C11.accept / C12.status.record: reference for handle_telegram, exhaustive over a small alphabet
fn ht_case(ps: u8, npv: Option<u8>, cc: u8, sr: Option<u8>, kind: u8, sa: u8, da: u8, is_last: bool) -> Result<(), String> {
    let ts = 7u8;
    let mut p = crate::fdl::Parameters::default();
    p.address = ts;
    let mut fdl = FdlActiveStation::new(p);
    fdl.connectivity_state = ConnectivityState::Online;
    fdl.token_ring.claim_token();
    // a populated LAS {3, 7, 15, 42, 50} (ps = 3), or a two-station view when another ps is requested
    if ps == 3 { for (a, b) in [(3u8, 7u8), (7, 15), (15, 42), (42, 50), (50, 3)] { fdl.token_ring.witness_token_pass(a, b); } }
    else if ps != ts { fdl.token_ring.witness_token_pass(ps, ts); }
    if fdl.token_ring.previous_station() != ps { return Ok(()); }
    fdl.state = State::ActiveIdle { status_request: sr, new_previous_station: npv, collision_count: cc };
    let now = crate::time::Instant::from_micros(123456);
    let pdu = [0u8; 0];
    let t = match kind {
        0 => crate::fdl::Telegram::Token(crate::fdl::TokenTelegram::new(da, sa)),
        1 => crate::fdl::Telegram::ShortConfirmation(crate::fdl::ShortConfirmation),
        k => crate::fdl::Telegram::Data(crate::fdl::DataTelegram { h: crate::fdl::DataTelegramHeader { da, sa, dsap: None, ssap: None,
                fc: if k == 2 { crate::fdl::FunctionCode::Request { fcb: crate::fdl::FrameCountBit::Inactive, req: crate::fdl::RequestType::FdlStatus } }
                    else { crate::fdl::FunctionCode::Response { state: crate::fdl::ResponseState::Slave, status: crate::fdl::ResponseStatus::Ok } } }, pdu: &pdu }),
    };
    // reference ring view: a pass is witnessed when it is between others / not last, or when a token from a new
    // predecessor is accepted (then everything between that predecessor and us has left the ring)
    let mut want_ring = fdl.token_ring.clone();
    if kind == 0 && sa != ts && ((da != ts || !is_last) || (sa != ps && npv == Some(sa))) { want_ring.witness_token_pass(sa, da); }
    let _ = fdl.handle_telegram(now, t, is_last);
    let want = if kind == 0 {
        if sa == ts { if cc == 0 { State::ActiveIdle { status_request: sr, new_previous_station: npv, collision_count: 1 } } else { State::ListenToken { status_request: None, collision_count: 0 } } }
        else if da != ts || !is_last { State::ActiveIdle { status_request: sr, new_previous_station: npv, collision_count: 0 } }
        else if sa == ps || npv == Some(sa) { State::UseToken { data: UseTokenData::with_token_time(now), first_cycle_done: false } }
        else { State::ActiveIdle { status_request: sr, new_previous_station: Some(sa), collision_count: 0 } }
    } else if kind == 2 && da == ts && is_last { State::ActiveIdle { status_request: Some(sa), new_previous_station: npv, collision_count: cc } }
    else { State::ActiveIdle { status_request: sr, new_previous_station: npv, collision_count: cc } };
    if fdl.state != want { return Err(format!("state after handle_telegram is {:?}, token acceptance rule says {:?}", fdl.state, want)); }
    if fdl.token_ring != want_ring { return Err(format!("ring view after handle_telegram is {:?}, expected {:?}", fdl.token_ring, want_ring)); }
    Ok(())
}

/// args = [ps npv(-1 none) cc sr(-1) kind sa da is_last] replays; none = enumeration
pub fn c11_accept(args: &[String], _seed: u64) -> Vec<String> {
    std::panic::set_hook(Box::new(|_| {}));
    let opt = |v: i64| if v < 0 { None } else { Some(v as u8) };
    let run = |ps: u8, npv: Option<u8>, cc: u8, sr: Option<u8>, kind: u8, sa: u8, da: u8, l: bool| match std::panic::catch_unwind(move || ht_case(ps, npv, cc, sr, kind, sa, da, l)) { Ok(r) => r, Err(_) => Err("panic".into()) };
    if args.len() == 8 {
        let v: Vec<i64> = args.iter().map(|s| s.parse().unwrap()).collect();
        let r = run(v[0] as u8, opt(v[1]), v[2] as u8, opt(v[3]), v[4] as u8, v[5] as u8, v[6] as u8, v[7] != 0);
        return vec![format!("{{\"oracle\":\"c11_accept\",\"status\":\"{}\",\"input\":[{}],\"observed\":\"{}\"}}", if r.is_ok() { "pass" } else { "fail" }, v.iter().map(|x| x.to_string()).collect::<Vec<_>>().join(","), r.err().unwrap_or_default().replace('"', "'"))];
    }
    let addrs = [7u8, 3, 15, 42, 50, 125, 126, 127];
    let mut n = 0u64;
    for ps in [3u8, 15, 7] { for npv in [None, Some(42u8), Some(50), Some(3)] { for cc in [0u8, 1] { for sr in [None, Some(9u8)] {
        for kind in 0u8..4 { for sa in addrs { for da in addrs { for l in [false, true] {
            n += 1;
            if let Err(e) = run(ps, npv, cc, sr, kind, sa, da, l) {
                return vec![format!("{{\"oracle\":\"c11_accept\",\"status\":\"fail\",\"input\":[{ps},{},{cc},{},{kind},{sa},{da},{}],\"observed\":\"{}\",\"evaluations\":{n}}}",
                    npv.map(|x| x as i64).unwrap_or(-1), sr.map(|x| x as i64).unwrap_or(-1), l as u8, e.replace('"', "'"))];
            }
        } } } }
    } } } }
    vec![format!("{{\"oracle\":\"c11_accept\",\"status\":\"pass\",\"evaluations\":{n}}}")]
}

/// C15.sched: round-robin index arithmetic of schedule_next_application, exhaustive for n <= 6
pub fn c15_sched(args: &[String], _seed: u64) -> Vec<String> {
    std::panic::set_hook(Box::new(|_| {}));
    let case = |n: usize, next: usize, first: Option<usize>| -> Result<(), String> {
        let mut fdl = FdlActiveStation::new(crate::fdl::Parameters::default());
        fdl.state = State::UseToken { data: UseTokenData { token_time: crate::time::Instant::ZERO, first_app: first }, first_cycle_done: false };
        fdl.next_application = next;
        let r = fdl.schedule_next_application(n);
        let wf = first.unwrap_or(next);
        let wn = (next + 1) % n;
        let got_first = match &fdl.state { State::UseToken { data, .. } => data.first_app, _ => None };
        if fdl.next_application != wn || got_first != Some(wf) || (r == ScheduleNext::CycleCompleted) != (wn == wf) {
            return Err(format!("n={n} next={next} first={first:?}: next'={} first'={got_first:?} result={r:?}", fdl.next_application));
        }
        Ok(())
    };
    if args.len() == 3 {
        let v: Vec<i64> = args.iter().map(|s| s.parse().unwrap()).collect();
        let r = match std::panic::catch_unwind(|| case(v[0] as usize, v[1] as usize, if v[2] < 0 { None } else { Some(v[2] as usize) })) { Ok(r) => r, Err(_) => Err("panic".into()) };
        return vec![format!("{{\"oracle\":\"c15_sched\",\"status\":\"{}\",\"input\":[{},{},{}],\"observed\":\"{}\"}}", if r.is_ok() { "pass" } else { "fail" }, v[0], v[1], v[2], r.err().unwrap_or_default().replace('"', "'"))];
    }
    let mut cnt = 0u64;
    for n in 1usize..=6 { for next in 0..n { for first in std::iter::once(None).chain((0..n).map(Some)) {
        cnt += 1;
        let r = match std::panic::catch_unwind(|| case(n, next, first)) { Ok(r) => r, Err(_) => Err("panic".into()) };
        if let Err(e) = r { return vec![format!("{{\"oracle\":\"c15_sched\",\"status\":\"fail\",\"input\":[{n},{next},{}],\"observed\":\"{}\",\"evaluations\":{cnt}}}", first.map(|x| x as i64).unwrap_or(-1), e.replace('"', "'"))]; }
    } } }
    vec![format!("{{\"oracle\":\"c15_sched\",\"status\":\"pass\",\"evaluations\":{cnt}}}")]
}

// ---------------------------------------------------------------------------------------------------------
// C01 timing helpers: synchronisation pause boundary, slot expiry, time-out staggering (all baud rates)
pub fn c01_timing(args: &[String], seed: u64) -> Vec<String> {
    std::panic::set_hook(Box::new(|_| {}));
    let bauds = [crate::Baudrate::B9600, crate::Baudrate::B19200, crate::Baudrate::B31250, crate::Baudrate::B45450, crate::Baudrate::B93750, crate::Baudrate::B187500,
        crate::Baudrate::B500000, crate::Baudrate::B1500000, crate::Baudrate::B3000000, crate::Baudrate::B6000000, crate::Baudrate::B12000000];
    let rates = [9600u64, 19200, 31250, 45450, 93750, 187500, 500000, 1500000, 3000000, 6000000, 12000000];
    let case = |bi: usize, slot_bits: u16, ts: u8, lba: i64, dt: i64| -> Result<(), String> {
        let mut p = crate::fdl::Parameters::default();
        p.baudrate = bauds[bi]; p.slot_bits = slot_bits; p.address = ts;
        let us = |bits: u64| bits * 1_000_000 / rates[bi];
        if p.bits_to_time(33).total_micros() != us(33) { return Err(format!("bits_to_time(33) = {}", p.bits_to_time(33).total_micros())); }
        let want_to = us(u64::from(slot_bits) * (6 + 2 * u64::from(ts)));
        if p.token_lost_timeout().total_micros() != want_to { return Err(format!("token_lost_timeout {} != {want_to}", p.token_lost_timeout().total_micros())); }
        let mut f = FdlActiveStation::new(p);
        f.last_bus_activity = Some(crate::time::Instant::from_micros(lba));
        let now = crate::time::Instant::from_micros(lba + dt);
        let may_send = f.wait_synchronization_pause(now).is_none();
        if may_send != (dt > us(33) as i64) { return Err(format!("sync pause: {dt} us after activity, T33 = {} us, may_send = {may_send}", us(33))); }
        let expired = f.check_slot_expired(now);
        if expired != (dt > us(u64::from(slot_bits)) as i64) { return Err(format!("slot expiry: {dt} us after activity, Tsl = {} us, expired = {expired}", us(u64::from(slot_bits)))); }
        let _ = f.mark_tx(now, 17);
        if f.last_bus_activity != Some(now + crate::time::Duration::from_micros(us(11 * 17))) { return Err("mark_tx prediction".into()); }
        Ok(())
    };
    if args.len() == 5 {
        let v: Vec<i64> = args.iter().map(|s| s.parse().unwrap()).collect();
        let r = match std::panic::catch_unwind(|| case(v[0] as usize, v[1] as u16, v[2] as u8, v[3], v[4])) { Ok(r) => r, Err(_) => Err("panic".into()) };
        return vec![format!("{{\"oracle\":\"c01_timing\",\"status\":\"{}\",\"input\":[{},{},{},{},{}],\"observed\":\"{}\"}}", if r.is_ok() { "pass" } else { "fail" }, v[0], v[1], v[2], v[3], v[4], r.err().unwrap_or_default().replace('"', "'"))];
    }
    let mut s = seed | 1;
    let mut lcg = move || { s = s.wrapping_mul(6364136223846793005).wrapping_add(1442695040888963407); s >> 33 };
    let mut n = 0u64;
    for bi in 0..11 { for slot_bits in [100u16, 101, 300, 1000, 4095, 65535] { for ts in [0u8, 1, 7, 125] {
        let t33 = (33u64 * 1_000_000 / rates[bi]) as i64;
        let tsl = (u64::from(slot_bits) * 1_000_000 / rates[bi]) as i64;
        for dt in [0i64, 1, t33 - 1, t33, t33 + 1, tsl - 1, tsl, tsl + 1, (lcg() % 100000) as i64] {
            if dt < 0 { continue; }
            n += 1;
            let lba = (lcg() % 1_000_000_000) as i64;
            let r = match std::panic::catch_unwind(|| case(bi, slot_bits, ts, lba, dt)) { Ok(r) => r, Err(_) => Err("panic".into()) };
            if let Err(e) = r { return vec![format!("{{\"oracle\":\"c01_timing\",\"status\":\"fail\",\"input\":[{bi},{slot_bits},{ts},{lba},{dt}],\"observed\":\"{}\",\"evaluations\":{n}}}", e.replace('"', "'"))]; }
        }
    } } }
    vec![format!("{{\"oracle\":\"c01_timing\",\"status\":\"pass\",\"evaluations\":{n}}}")]
}
