// Native oracles for src/fdl/telegram.rs: reference frame encoder/decoder written from the
// PROFIBUS frame format (independent of the crate's code), compared with the real functions.
use super::*;

#[derive(Debug, Clone, PartialEq, Eq)]
pub enum RefDec {
    NeedMore,
    Reject,
    Sc,
    Token { da: u8, sa: u8 },
    Data { da: u8, sa: u8, dsap: Option<u8>, ssap: Option<u8>, fc: u8, pdu: Vec<u8>, total: usize },
}

pub fn ref_fc_valid(b: u8) -> bool {
    if b & 0x40 != 0 {
        matches!(b & 0x8f, 0x80 | 0 | 3 | 4 | 5 | 6 | 7 | 9 | 12 | 13 | 14 | 15)
    } else {
        matches!(b & 0x0f, 0 | 1 | 2 | 3 | 8 | 9 | 10 | 12 | 13)
    }
}

pub fn ref_decode(b: &[u8]) -> RefDec {
    if b.is_empty() { return RefDec::NeedMore; }
    match b[0] {
        0xE5 => RefDec::Sc,
        0xDC => if b.len() < 3 { RefDec::NeedMore } else { RefDec::Token { da: b[1], sa: b[2] } },
        0x10 | 0x68 | 0xA2 => {
            if b.len() < 6 { return RefDec::NeedMore; }
            let (off, n, total) = match b[0] {
                0x10 => (0usize, 0usize, 6usize),
                0xA2 => (0, 8, 14),
                _ => {
                    if b[1] != b[2] || b[1] < 3 || b[3] != 0x68 { return RefDec::Reject; }
                    (3, b[1] as usize - 3, b[1] as usize + 6)
                }
            };
            if b.len() < total { return RefDec::NeedMore; }
            let (da, sa, fc) = (b[off + 1], b[off + 2], b[off + 3]);
            let (hd, hs) = (da >= 128, sa >= 128);
            let k = hd as usize + hs as usize;
            if !ref_fc_valid(fc) || n < k { return RefDec::Reject; }
            let sum = b[off + 1..off + 4 + n].iter().fold(0u8, |a, x| a.wrapping_add(*x));
            if b[off + 4 + n] != sum || b[off + 5 + n] != 0x16 { return RefDec::Reject; }
            RefDec::Data {
                da: da & 0x7f, sa: sa & 0x7f,
                dsap: if hd { Some(b[off + 4]) } else { None },
                ssap: if hs { Some(b[off + 4 + hd as usize]) } else { None },
                fc: if fc & 0x40 != 0 { fc } else { fc & 0x7f },
                pdu: b[off + 4 + k..off + 4 + n].to_vec(), total,
            }
        }
        _ => RefDec::Reject,
    }
}

pub fn ref_encode(da: u8, sa: u8, dsap: Option<u8>, ssap: Option<u8>, fc: u8, pdu: &[u8]) -> Vec<u8> {
    let le = pdu.len() + dsap.is_some() as usize + ssap.is_some() as usize + 3;
    let mut f = vec![];
    match le { 3 => f.push(0x10), 11 => f.push(0xA2), _ => { f.extend([0x68, le as u8, le as u8, 0x68]); } }
    let start = f.len();
    f.push(da | if dsap.is_some() { 0x80 } else { 0 });
    f.push(sa | if ssap.is_some() { 0x80 } else { 0 });
    f.push(fc);
    if let Some(d) = dsap { f.push(d); }
    if let Some(s) = ssap { f.push(s); }
    f.extend_from_slice(pdu);
    let sum = f[start..].iter().fold(0u8, |a, x| a.wrapping_add(*x));
    f.push(sum);
    f.push(0x16);
    f
}

fn real_decode(b: &[u8]) -> RefDec {
    match Telegram::deserialize(b) {
        None => RefDec::NeedMore,
        Some(Err(())) => RefDec::Reject,
        Some(Ok((Telegram::ShortConfirmation(_), n))) => if n == 1 { RefDec::Sc } else { RefDec::Data { da: 0, sa: 0, dsap: None, ssap: None, fc: 0, pdu: vec![], total: n } },
        Some(Ok((Telegram::Token(t), n))) => if n == 3 { RefDec::Token { da: t.da, sa: t.sa } } else { RefDec::Reject },
        Some(Ok((Telegram::Data(t), n))) => RefDec::Data { da: t.h.da, sa: t.h.sa, dsap: t.h.dsap, ssap: t.h.ssap, fc: t.h.fc.to_byte(), pdu: t.pdu.to_vec(), total: n },
    }
}

fn hex(b: &[u8]) -> String { b.iter().map(|x| format!("{x:02x}")).collect::<Vec<_>>().join(" ") }
fn unhex(args: &[String]) -> Vec<u8> { args.iter().flat_map(|a| a.split_whitespace().map(|s| u8::from_str_radix(s, 16).unwrap()).collect::<Vec<_>>()).collect() }

fn dec_case(b: &[u8]) -> Result<(), String> {
    let r = std::panic::catch_unwind(|| real_decode(b));
    let want = ref_decode(b);
    match r {
        Err(_) => Err(format!("decoder panicked; reference says {want:?}")),
        Ok(got) => if got == want { Ok(()) } else { Err(format!("decoder returned {got:?}, frame format says {want:?}")) },
    }
}

fn lcg(s: &mut u64) -> u64 { *s = s.wrapping_mul(6364136223846793005).wrapping_add(1442695040888963407); *s >> 33 }

fn all_fc() -> Vec<u8> { (0..=255u8).filter(|b| ref_fc_valid(*b)).map(|b| if b & 0x40 != 0 { b } else { b & 0x7f }).collect() }

/// C10: args = hex bytes replays one input; no args = structured search.
pub fn c10_decode(args: &[String], seed: u64) -> Vec<String> {
    std::panic::set_hook(Box::new(|_| {}));
    if !args.is_empty() {
        let b = unhex(args);
        let r = dec_case(&b);
        return vec![format!("{{\"oracle\":\"c10_decode\",\"status\":\"{}\",\"input\":[\"{}\"],\"observed\":\"{}\"}}",
            if r.is_ok() { "pass" } else { "fail" }, hex(&b), r.err().unwrap_or_default().replace('"', "'"))];
    }
    let mut n = 0u64;
    let mut s = seed ^ 0x9e3779b97f4a7c15;
    let mut check = |b: &[u8], n: &mut u64| -> Option<String> {
        *n += 1;
        dec_case(b).err().map(|e| format!("{{\"oracle\":\"c10_decode\",\"status\":\"fail\",\"input\":[\"{}\"],\"observed\":\"{}\",\"evaluations\":{}}}", hex(b), e.replace('"', "'"), *n))
    };
    // all strings of length <= 2, all headers x structured bodies
    for a in 0..=255u8 { if let Some(e) = check(&[a], &mut n) { return vec![e]; } for b in 0..=255u8 { if let Some(e) = check(&[a, b], &mut n) { return vec![e]; } } }
    let fcs = all_fc();
    for len in (0usize..=246).chain([]) {
        for (dsap, ssap) in [(None, None), (Some(60u8), None), (None, Some(62u8)), (Some(61), Some(62))] {
            if len + dsap.is_some() as usize + ssap.is_some() as usize + 3 > 249 { continue; }
            for (da, sa) in [(0u8, 0u8), (1, 2), (126, 127), (127, 126), (3, 125)] {
                let fc = fcs[(lcg(&mut s) as usize) % fcs.len()];
                let pdu: Vec<u8> = (0..len).map(|_| lcg(&mut s) as u8).collect();
                let f = ref_encode(da, sa, dsap, ssap, fc, &pdu);
                if let Some(e) = check(&f, &mut n) { return vec![e]; }
                // every prefix, and the frame followed by more bytes
                for k in 0..f.len() { if len < 20 || k % 17 == 0 || k + 8 > f.len() { if let Some(e) = check(&f[..k], &mut n) { return vec![e]; } } }
                let mut g = f.clone(); g.extend([0xDC, 1, 2]);
                if let Some(e) = check(&g, &mut n) { return vec![e]; }
                // single-byte substitutions at every position
                for i in 0..f.len() {
                    if len >= 20 && i > 8 && i + 4 < f.len() && i % 13 != 0 { continue; }
                    for x in [0x00u8, 0x10, 0x68, 0xA2, 0xDC, 0xE5, 0x16, 0xff, f[i] ^ 1, f[i] ^ 0x80, f[i].wrapping_add(1), lcg(&mut s) as u8] {
                        if x == f[i] { continue; }
                        let mut g = f.clone(); g[i] = x;
                        if let Some(e) = check(&g, &mut n) { return vec![e]; }
                    }
                }
            }
        }
    }
    // SD2 frames with LE = 3 / 11 and small LE with both extension bits (legal on the wire, never produced by the encoder)
    for le in 3u8..=16 {
        for da in [0x02u8, 0x82] { for sa in [0x07u8, 0x87] {
            let mut f = vec![0x68, le, le, 0x68, da, sa, 0x08];
            for i in 0..(le - 3) { f.push(0xDC ^ i); }
            let sum = f[4..].iter().fold(0u8, |a, x| a.wrapping_add(*x));
            f.push(sum); f.push(0x16);
            for k in 0..=f.len() { if let Some(e) = check(&f[..k], &mut n) { return vec![e]; } }
            let mut g = f.clone(); g.extend([0xDC, 9, 22]);
            if let Some(e) = check(&g, &mut n) { return vec![e]; }
        } }
    }
    // every SD2 length byte 0..=255 (also beyond what the encoder emits), with matching / differing repeat, bodies of
    // every length around the completeness boundaries
    for le in 0u16..=255 {
        let le = le as u8;
        for ler in [le, le.wrapping_add(1)] {
            for sd in [0x68u8, 0x10] {
                let full = usize::from(le) + 6;
                for blen in (0usize..=12).chain([full.saturating_sub(5), full.saturating_sub(4), full.saturating_sub(3), full]) {
                    let mut f = vec![0x68, le, ler, sd];
                    for i in 0..blen { f.push(if i == 2 { 0x08 } else { (i as u8).wrapping_mul(37) ^ le }); }
                    if let Some(e) = check(&f, &mut n) { return vec![e]; }
                }
            }
        }
    }
    for _ in 0..200000 {
        let len = (lcg(&mut s) % 24) as usize;
        let mut b: Vec<u8> = (0..len).map(|_| lcg(&mut s) as u8).collect();
        if len > 0 { b[0] = [0x10, 0x68, 0xA2, 0xDC, 0xE5, 0x68, 0x68, b[0]][(lcg(&mut s) % 8) as usize]; }
        if len > 3 && b[0] == 0x68 { b[1] = (lcg(&mut s) % 12) as u8; if lcg(&mut s) % 4 != 0 { b[2] = b[1]; } if lcg(&mut s) % 4 != 0 { b[3] = 0x68; } }
        if let Some(e) = check(&b, &mut n) { return vec![e]; }
    }
    vec![format!("{{\"oracle\":\"c10_decode\",\"status\":\"pass\",\"evaluations\":{n}}}")]
}

fn rt_case(da: u8, sa: u8, dsap: Option<u8>, ssap: Option<u8>, fcb: u8, pdu: &[u8]) -> Result<(), String> {
    let fc = FunctionCode::from_byte(fcb).map_err(|_| format!("from_byte rejects valid function code {fcb:#x}"))?;
    if fc.to_byte() != fcb { return Err(format!("to_byte(from_byte({fcb:#x})) = {:#x}", fc.to_byte())); }
    let want = ref_encode(da, sa, dsap, ssap, fcb, pdu);
    let h = DataTelegramHeader { da, sa, dsap, ssap, fc };
    let mut buf = [0xEEu8; 300];
    let n = h.serialize(&mut buf, pdu.len(), |b| b.copy_from_slice(pdu));
    if n != want.len() || buf[..n] != want[..] { return Err(format!("serialize wrote {n} bytes [{}], frame format says [{}]", hex(&buf[..n.min(300)]), hex(&want))); }
    if h.telegram_len(pdu.len()) != want.len() { return Err(format!("telegram_len {} != {}", h.telegram_len(pdu.len()), want.len())); }
    if buf[n..].iter().any(|x| *x != 0xEE) { return Err("serialize wrote behind the frame".into()); }
    // the window handed to the closure is zero-filled whatever the buffer held before (the DP master's Clear-state
    // Data_Exchange request relies on it): a closure that writes nothing yields the all-zero PDU
    let mut dirty = [0xA5u8; 300];
    let zeros = vec![0u8; pdu.len()];
    let wantz = ref_encode(da, sa, dsap, ssap, fcb, &zeros);
    let nz = h.serialize(&mut dirty, pdu.len(), |_b| ());
    if nz != wantz.len() || dirty[..nz] != wantz[..] { return Err(format!("serialize into a used buffer with a closure that writes nothing gave [{}], the all-zero PDU frame is [{}]", hex(&dirty[..nz.min(300)]), hex(&wantz))); }
    match Telegram::deserialize(&buf[..n + 3]) {
        Some(Ok((Telegram::Data(t), m))) if m == n && t.h == h && t.pdu == pdu => Ok(()),
        other => Err(format!("decode(encode(t)) = {other:?}, expected the telegram itself consuming {n} bytes")),
    }
}

/// C09: args = [da sa dsap|- ssap|- fc(hex) pdu_len] replays; no args = structured search.
pub fn c09_roundtrip(args: &[String], seed: u64) -> Vec<String> {
    std::panic::set_hook(Box::new(|_| {}));
    let run = |da: u8, sa: u8, dsap: Option<u8>, ssap: Option<u8>, fcb: u8, len: usize| -> Result<(), String> {
        let pdu: Vec<u8> = (0..len).map(|i| (i as u8).wrapping_mul(37).wrapping_add(seed as u8)).collect();
        match std::panic::catch_unwind(|| rt_case(da, sa, dsap, ssap, fcb, &pdu)) { Ok(r) => r, Err(_) => Err("panic".into()) }
    };
    let sap = |s: &String| if s == "-" { None } else { Some(s.parse::<u8>().unwrap()) };
    let show = |o: Option<u8>| o.map(|x| x.to_string()).unwrap_or("-".into());
    if args.len() == 6 {
        let (da, sa, dsap, ssap) = (args[0].parse().unwrap(), args[1].parse().unwrap(), sap(&args[2]), sap(&args[3]));
        let fcb = u8::from_str_radix(&args[4], 16).unwrap();
        let len: usize = args[5].parse().unwrap();
        let r = run(da, sa, dsap, ssap, fcb, len);
        return vec![format!("{{\"oracle\":\"c09_roundtrip\",\"status\":\"{}\",\"input\":[\"{da}\",\"{sa}\",\"{}\",\"{}\",\"{fcb:x}\",\"{len}\"],\"observed\":\"{}\"}}",
            if r.is_ok() { "pass" } else { "fail" }, show(dsap), show(ssap), r.err().unwrap_or_default().replace('"', "'"))];
    }
    let mut n = 0u64;
    // function codes: all 256 bytes
    for b in 0..=255u8 {
        n += 1;
        let r = FunctionCode::from_byte(b);
        let ok = match r { Ok(fc) => ref_fc_valid(b) && fc.to_byte() == (if b & 0x40 != 0 { b } else { b & 0x7f }), Err(_) => !ref_fc_valid(b) };
        if !ok { return vec![format!("{{\"oracle\":\"c09_roundtrip\",\"status\":\"fail\",\"input\":[\"0\",\"0\",\"-\",\"-\",\"{b:x}\",\"0\"],\"observed\":\"function code byte {b:#x}: from_byte = {r:?}\",\"evaluations\":{n}}}")]; }
    }
    let fcs = all_fc();
    for (dsap, ssap) in [(None, None), (Some(0u8), None), (None, Some(255u8)), (Some(61), Some(62))] {
        for len in 0usize..=246 {
            if len + dsap.is_some() as usize + ssap.is_some() as usize + 3 > 249 { continue; }
            for (da, sa) in [(0u8, 0u8), (127, 127), (126, 1), (5, 127), (127, 9), (64, 63)] {
                for (i, fcb) in fcs.iter().enumerate() {
                    if !(len < 12 || (i + len) % 11 == 0) { continue; }
                    n += 1;
                    if let Err(e) = run(da, sa, dsap, ssap, *fcb, len) {
                        return vec![format!("{{\"oracle\":\"c09_roundtrip\",\"status\":\"fail\",\"input\":[\"{da}\",\"{sa}\",\"{}\",\"{}\",\"{fcb:x}\",\"{len}\"],\"observed\":\"{}\",\"evaluations\":{n}}}", show(dsap), show(ssap), e.replace('"', "'"))];
                    }
                }
            }
        }
    }
    // all address pairs, small payloads
    for da in 0..=127u8 { for sa in 0..=127u8 { for (dsap, ssap) in [(None, None), (Some(3u8), None), (None, Some(4u8)), (Some(5), Some(6))] { for len in [0usize, 1, 8] {
        n += 1;
        if let Err(e) = run(da, sa, dsap, ssap, 0x6d, len) {
            return vec![format!("{{\"oracle\":\"c09_roundtrip\",\"status\":\"fail\",\"input\":[\"{da}\",\"{sa}\",\"{}\",\"{}\",\"6d\",\"{len}\"],\"observed\":\"{}\",\"evaluations\":{n}}}", show(dsap), show(ssap), e.replace('"', "'"))];
        }
    } } } }
    vec![format!("{{\"oracle\":\"c09_roundtrip\",\"status\":\"pass\",\"evaluations\":{n}}}")]
}

/// C10 (known finding F12): a single *byte* substitution of the first byte of a valid frame can yield a
/// different, syntactically complete telegram (tokens and SC carry no checksum).  args: [hex frame, hex byte]
pub fn c10_first_byte(args: &[String], _seed: u64) -> Vec<String> {
    let (f, x) = if args.len() == 2 { (unhex(&args[..1]), u8::from_str_radix(&args[1], 16).unwrap()) }
                 else { (ref_encode(2, 3, None, None, 0x49, &[]), 0xDCu8) };
    let orig = real_decode(&f);
    let mut g = f.clone();
    g[0] = x;
    let got = real_decode(&g);
    let bad = !matches!(got, RefDec::NeedMore | RefDec::Reject) && got != orig;
    vec![format!("{{\"oracle\":\"c10_first_byte\",\"status\":\"{}\",\"input\":[\"{}\",\"{x:02x}\"],\"observed\":\"{}\"}}",
        if bad { "fail" } else { "pass" }, hex(&f), format!("valid frame decodes as {orig:?}; with first byte {x:#x} it decodes as {got:?}").replace('"', "'"))]
}
