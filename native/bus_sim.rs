// Public-API bus simulation (bounded stand-in / fallback witness search; NOT a proof).
//
// Uses only the public API of profirust (FdlActiveStation, ParametersBuilder, DpMaster, SimulatorPhy), so it still
// builds when private fields or helper functions are restructured and the harnesses that reach into private state
// lose their anchors.  Scenarios are derived from a scenario number by a fixed PRNG: 1..3 real active stations on the
// repository's own simulator bus, applications of every appetite, TTR from very tight to the default, several poll
// step widths.  Checked per scenario:
//   * C05: no panic inside poll()/poll_multi() (debug assertions and overflow checks on, a logger that formats every
//     record);  panics raised by the simulator bus itself ("attempted transmission while ... is still sending",
//     "did not leave appropriate ... delay") are reported as `bus-timing` (C01), not as C05 failures;
//   * C13: on a token that arrived later than TTR (+ tolerance) after the previous receipt, the station starts at most
//     one application message cycle before it passes the token on (observed by a bus monitor).
pub mod bus_sim {
    use profirust::fdl;
    use profirust::phy::ProfibusPhy;
    use profirust::time::{Duration, Instant};

    struct Rng(u64);
    impl Rng {
        fn next(&mut self) -> u64 {
            self.0 ^= self.0 << 13;
            self.0 ^= self.0 >> 7;
            self.0 ^= self.0 << 17;
            self.0
        }
        fn below(&mut self, n: u64) -> u64 {
            self.next() % n
        }
    }

    struct FmtLogger;
    impl log::Log for FmtLogger {
        fn enabled(&self, _: &log::Metadata) -> bool {
            true
        }
        fn log(&self, record: &log::Record) {
            // format every record (argument evaluation is what can panic), throw the text away
            use std::fmt::Write;
            let mut s = String::new();
            let _ = write!(s, "{}", record.args());
            if TRACE.load(std::sync::atomic::Ordering::Relaxed) {
                eprintln!("[{} {}] {}", record.level(), record.target(), s);
            }
            std::hint::black_box(&s);
        }
        fn flush(&self) {}
    }
    static LOGGER: FmtLogger = FmtLogger;
    static TRACE: std::sync::atomic::AtomicBool = std::sync::atomic::AtomicBool::new(false);

    /// appetite 0 = never, 1 = always (SDN broadcast), 2 = sometimes (SDN), 3 = always SRD to `peer` (may time out)
    struct App {
        appetite: u8,
        peer: u8,
        pdu: usize,
        from: Instant,
        rng: Rng,
        sent: usize,
        replies: usize,
        timeouts: usize,
    }

    impl fdl::FdlApplication for App {
        fn transmit_telegram(
            &mut self,
            now: Instant,
            fdl: &fdl::FdlActiveStation,
            tx: fdl::TelegramTx,
            _high_prio_only: fdl::HighPrioOnly,
        ) -> Option<fdl::TelegramTxResponse> {
            if now < self.from || self.appetite == 0 {
                return None;
            }
            if self.appetite == 2 && self.rng.below(3) != 0 {
                return None;
            }
            self.sent += 1;
            let srd = self.appetite == 3;
            Some(tx.send_data_telegram(
                fdl::DataTelegramHeader {
                    da: if srd { self.peer } else { 0x7f },
                    sa: fdl.parameters().address,
                    dsap: Some(62),
                    ssap: Some(62),
                    fc: fdl::FunctionCode::Request {
                        fcb: fdl::FrameCountBit::Inactive,
                        req: if srd { fdl::RequestType::SrdHigh } else { fdl::RequestType::SdnHigh },
                    },
                },
                self.pdu,
                |buf| buf.fill(0x55),
            ))
        }
        fn receive_reply(&mut self, _: Instant, _: &fdl::FdlActiveStation, _: u8, _: fdl::Telegram) {
            self.replies += 1;
        }
        fn handle_timeout(&mut self, _: Instant, _: &fdl::FdlActiveStation, _: u8) {
            self.timeouts += 1;
        }
    }

    #[derive(Debug)]
    struct Scn {
        baud_fast: bool,
        addrs: Vec<u8>,
        hsa: u8,
        slot_bits: u16,
        ttr_bits: u32,
        gap_rot: u8,
        dt_bits: u32,
        total_bits: u32,
        hungry_from_bits: u32,
        apps: Vec<(u8, u8, usize)>, // per station: appetite, peer, pdu
        dp_peripherals: Vec<u8>,    // station 0 additionally runs a DpMaster with these (absent) peripherals
        with_dp: bool,
        offline_at_bits: Option<(usize, u32, u32)>, // station index, goes offline at, comes back at
    }

    fn scenario(n: u64) -> Scn {
        let mut r = Rng(0x9E37_79B9_7F4A_7C15 ^ (n.wrapping_mul(0x2545_F491_4F6C_DD1D) | 1));
        for _ in 0..4 {
            r.next();
        }
        let count = 1 + r.below(3) as usize;
        let mut addrs: Vec<u8> = Vec::new();
        while addrs.len() < count {
            let a = r.below(12) as u8;
            if !addrs.contains(&a) {
                addrs.push(a);
            }
        }
        let hsa = (*addrs.iter().max().unwrap() + 1 + r.below(4) as u8).min(125);
        let baud_fast = r.below(2) == 0;
        // documented builder minimum: 100 bit up to 187.5 kbit/s, 200 bit at 500 kbit/s
        let slot_bits = [100u16, 150, 300][r.below(3) as usize].max(if baud_fast { 200 } else { 100 });
        let ttr_bits = [300u32, 600, 1200, 5000, 20000][r.below(5) as usize];
        let apps = (0..count)
            .map(|_| {
                let appetite = r.below(4) as u8;
                let peer = r.below(14) as u8;
                let pdu = [0usize, 1, 8, 32, 100][r.below(5) as usize];
                (appetite, peer, pdu)
            })
            .collect();
        let with_dp = r.below(3) == 0;
        let np = r.below(3) as usize;
        let mut dp_peripherals = Vec::new();
        while dp_peripherals.len() < np {
            let a = 20 + r.below(10) as u8;
            if !dp_peripherals.contains(&a) {
                dp_peripherals.push(a);
            }
        }
        let offline = if count > 1 && r.below(3) == 0 {
            let at = 30_000 + r.below(20_000) as u32;
            Some((r.below(count as u64) as usize, at, at + 5_000 + r.below(20_000) as u32))
        } else {
            None
        };
        Scn {
            baud_fast,
            addrs,
            hsa,
            slot_bits,
            ttr_bits,
            gap_rot: 1 + r.below(4) as u8,
            dt_bits: [2u32, 5, 11][r.below(3) as usize],
            total_bits: 90_000,
            hungry_from_bits: 25_000,
            apps,
            dp_peripherals,
            with_dp,
            offline_at_bits: offline,
        }
    }

    struct Outcome {
        late_visits: usize,
        max_cycles_late: usize,
        worst: String,
        polls: usize,
    }

    fn run_scenario(s: &Scn, join_mid_telegram: bool, adversary: Option<u64>) -> Outcome {
        let baud = if s.baud_fast { profirust::Baudrate::B500000 } else { profirust::Baudrate::B19200 };
        let bits = |b: u32| baud.bits_to_time(b);
        let bus = profirust::phy::SimulatorPhy::new(baud, "phy#monitor");
        let mut monitor = bus.duplicate("phy#monitor");
        let hungry_from = Instant::ZERO + bits(s.hungry_from_bits);
        let end = Instant::ZERO + bits(s.total_bits);
        let dt = Duration::from_micros(bits(s.dt_bits).total_micros().max(1));

        let mut stations: Vec<_> = s
            .addrs
            .iter()
            .enumerate()
            .map(|(i, &addr)| {
                let phy = bus.duplicate(format!("phy#{addr}").leak());
                let mut param = fdl::ParametersBuilder::new(addr, baud);
                param
                    .highest_station_address(s.hsa)
                    .slot_bits(s.slot_bits)
                    .gap_wait_rotations(s.gap_rot)
                    .token_rotation_bits(s.ttr_bits);
                let mut station = fdl::FdlActiveStation::new(param.build());
                station.set_online();
                let (appetite, peer, pdu) = s.apps[i];
                let app = App {
                    appetite,
                    peer,
                    pdu,
                    from: hungry_from,
                    rng: Rng(0x1234_5678_9abc_def1 + i as u64),
                    sent: 0,
                    replies: 0,
                    timeouts: 0,
                };
                (addr, phy, station, app)
            })
            .collect();

        let mut dp_master = profirust::dp::DpMaster::new(vec![]);
        if s.with_dp {
            for &a in &s.dp_peripherals {
                let pi_i: &'static mut [u8] = vec![0u8; 2].leak();
                let pi_q: &'static mut [u8] = vec![0u8; 1].leak();
                let options = profirust::dp::PeripheralOptions {
                    ident_number: 0x1234,
                    user_parameters: Some(&[0x00, 0x01]),
                    config: Some(&[0x11, 0x20]),
                    max_tsdr: 100,
                    ..Default::default()
                };
                dp_master.add(profirust::dp::Peripheral::new(a, options, pi_i, pi_q));
            }
            dp_master.enter_operate();
        }

        let mut token_holder: Option<u8> = None;
        let mut last_receipt = [None::<Instant>; 128];
        let mut token_was_late = false;
        let mut cycles_this_visit = 0usize;
        let mut out = Outcome { late_visits: 0, max_cycles_late: 0, worst: String::new(), polls: 0 };
        // tolerance: both receipts are observed by the station up to one poll step after the monitor sees them
        let late_margin = bits(s.ttr_bits + 2 * s.dt_bits + 22);

        // adversary (scenario numbers >= 2_000_000): a foreign device that injects telegrams the property text lists
        // (tokens from/to arbitrary addresses incl. > 125 and a station's own address, status requests / replies, short
        // confirmations, data replies, garbage) 12..22 bit times after a token telegram, i.e. while nobody else may
        // transmit, so the injection itself never collides
        let mut adv_phy = bus.duplicate("phy#adv");
        let mut adv_rng = Rng(adversary.unwrap_or(1) | 1);
        let mut adv_left: u32 = if adversary.is_some() { 1 + adv_rng.below(6) as u32 } else { 0 };
        let mut adv_not_before = Instant::ZERO + bits(8_000 + adv_rng.below(40_000) as u32);
        let mut adv_token_seen: Option<(Instant, u8)> = None;
        let mut adv_second: Option<(Instant, Vec<u8>)> = None;

        let mut now = Instant::ZERO;
        let mut bus_idle = true;
        while now < end {
            bus.set_bus_time(now);
            if let Some((at, bytes)) = adv_second.take() {
                if now >= at {
                    let n = bytes.len();
                    adv_phy.transmit_data(now, |buf| {
                        buf[..n].copy_from_slice(&bytes);
                        (n, ())
                    });
                } else {
                    adv_second = Some((at, bytes));
                }
            } else if let Some((seen, holder)) = adv_token_seen {
                if adv_left > 0 && now >= adv_not_before && now >= seen + bits(12) && bus_idle {
                    adv_token_seen = None;
                    adv_left -= 1;
                    adv_not_before = now + bits(500 + adv_rng.below(8_000) as u32);
                    let real = s.addrs[adv_rng.below(s.addrs.len() as u64) as usize];
                    let any = adv_rng.below(256) as u8;
                    let mut sa = adv_rng.below(256) as u8;
                    if sa == holder {
                        sa = sa.wrapping_add(1);
                    }
                    let da = if adv_rng.below(3) == 0 { any } else { real };
                    let sd1 = |da: u8, sa: u8, fc: u8| vec![0x10, da, sa, fc, da.wrapping_add(sa).wrapping_add(fc), 0x16];
                    let bytes: Vec<u8> = match adv_rng.below(8) {
                        0 | 1 | 2 => vec![0xDC, da, sa],
                        3 => sd1(da, sa & 0x7f, 0x49),
                        4 => sd1(da, sa & 0x7f, [0x00, 0x20, 0x30, 0x08, 0x02][adv_rng.below(5) as usize]),
                        5 => vec![0xE5],
                        6 => match adv_rng.below(3) {
                            // noise that does not start with a start delimiter / truncated SD2 header / truncated SD1
                            0 => (0..1 + adv_rng.below(8))
                                .map(|i| {
                                    let b = adv_rng.below(256) as u8;
                                    if i == 0 && [0xDC, 0xE5, 0x10, 0x68, 0xA2].contains(&b) { 0x55 } else { b }
                                })
                                .collect(),
                            1 => vec![0x68, 9, 9, 0x68, da, sa, 0x08],
                            _ => vec![0x10, da, sa],
                        },
                        _ => {
                            // SD2 data response with SAPs and a short PDU
                            let pdu: Vec<u8> = (0..adv_rng.below(7)).map(|_| adv_rng.below(256) as u8).collect();
                            let mut body = vec![da | 0x80, (sa & 0x7f) | 0x80, 0x08, adv_rng.below(64) as u8, adv_rng.below(64) as u8];
                            body.extend_from_slice(&pdu);
                            let len = body.len() as u8;
                            let fcs = body.iter().fold(0u8, |a, b| a.wrapping_add(*b));
                            let mut f = vec![0x68, len, len, 0x68];
                            f.extend_from_slice(&body);
                            f.push(fcs);
                            f.push(0x16);
                            f
                        }
                    };
                    let n = bytes.len();
                    if adv_rng.below(2) == 0 && bytes[0] == 0xDC {
                        // the same token a second time (a station accepts a token from an unexpected neighbour on the second offer)
                        adv_second = Some((now + bits(11 * n as u32 + 13), bytes.clone()));
                    }
                    adv_phy.transmit_data(now, |buf| {
                        buf[..n].copy_from_slice(&bytes);
                        (n, ())
                    });
                } else if now >= seen + bits(12) {
                    adv_token_seen = None;
                }
            }
            if let Some((idx, off, on)) = s.offline_at_bits {
                if now >= Instant::ZERO + bits(off) && now < Instant::ZERO + bits(on) {
                    if !stations[idx].2.connectivity_state().is_offline() {
                        stations[idx].2.set_offline();
                    }
                } else if stations[idx].2.connectivity_state().is_offline() && (join_mid_telegram || bus_idle) {
                    // general sweep: (re)join only between telegrams; joining in the middle of a telegram is the
                    // separately replayed history of known finding F17 (scenario numbers >= 1_000_000)
                    stations[idx].2.set_online();
                }
            }
            for (i, (_, phy, station, app)) in stations.iter_mut().enumerate() {
                if station.connectivity_state().is_offline() {
                    // an offline station does not read its PHY; keep the receive buffer drained so that it does not
                    // come back with a backlog of stale telegrams (a station that is not polled in time cannot be
                    // timely - outside the properties, see DESIGN I.4 'observations')
                    if !phy.poll_transmission(now) {
                        phy.receive_data(now, |buf| (buf.len(), ()));
                    }
                }
                if i == 0 && s.with_dp {
                    station.poll_multi(now, phy, &mut [&mut dp_master, app]);
                    let _ = dp_master.take_last_events();
                } else {
                    station.poll(now, phy, app);
                }
                out.polls += 1;
            }
            monitor.receive_all_telegrams(now, |telegram, _| match telegram {
                fdl::Telegram::Token(t) if t.da != t.sa => {
                    adv_token_seen = Some((now, t.da));
                    if token_holder == Some(t.sa) && token_was_late {
                        out.late_visits += 1;
                        if cycles_this_visit > 1 && TRACE.load(std::sync::atomic::Ordering::Relaxed) {
                            eprintln!("[MONITOR] {} cycles on late token by #{} at {}", cycles_this_visit, t.sa, now.total_micros());
                        }
                        if cycles_this_visit > out.max_cycles_late {
                            out.max_cycles_late = cycles_this_visit;
                            out.worst = format!(
                                "station #{} started {} application message cycles on a token that arrived later than TTR",
                                t.sa, cycles_this_visit
                            );
                        }
                    }
                    if token_holder != Some(t.da) {
                        let previous = last_receipt[usize::from(t.da & 0x7f)].replace(now);
                        token_was_late = false;
                        if let Some(previous) = previous {
                            token_was_late = now - previous > late_margin;
                            if TRACE.load(std::sync::atomic::Ordering::Relaxed) {
                                eprintln!("[MONITOR] token to #{} at {} previous {} late {}", t.da, now.total_micros(), previous.total_micros(), token_was_late);
                            }
                        }
                        token_holder = Some(t.da);
                        cycles_this_visit = 0;
                    } else {
                        // repeated token pass: the receiver may have accepted only this one (a token from an unexpected
                        // previous station is taken on the second attempt); use the later time as its receipt and do
                        // not judge this visit
                        last_receipt[usize::from(t.da & 0x7f)] = Some(now);
                        token_was_late = false;
                    }
                }
                fdl::Telegram::Token(t) => {
                    // token to self (single station ring): a receipt, but visits are not delimited on the bus
                    last_receipt[usize::from(t.da & 0x7f)] = Some(now);
                    token_holder = None;
                }
                fdl::Telegram::Data(d)
                    if Some(d.h.sa) == token_holder
                        && d.is_fdl_status_request().is_none()
                        && d.is_response().is_none() =>
                {
                    cycles_this_visit += 1;
                }
                _ => (),
            });
            bus_idle = monitor.poll_pending_received_bytes(now) == 0;
            now += dt;
        }
        out
    }

    fn one(n: u64) -> String {
        let mut s = scenario(n % 1_000_000);
        if n >= 2_000_000 {
            // the injection window (12..22 bit times after a token) needs a fine poll step
            s.dt_bits = s.dt_bits.min(5);
        }
        let mid = n >= 1_000_000 && n < 2_000_000;
        let adv = if n >= 2_000_000 { Some(n.wrapping_mul(0x9E37_79B9_7F4A_7C15)) } else { None };
        let desc = format!("{:?}", s).replace('"', "'");
        let res = std::panic::catch_unwind(std::panic::AssertUnwindSafe(|| run_scenario(&s, mid, adv)));
        match res {
            Ok(o) => {
                if o.max_cycles_late > 1 {
                    format!(
                        "{{\"oracle\":\"bus_sim\",\"status\":\"fail\",\"kind\":\"hold-time\",\"input\":[{}],\"observed\":\"{}\",\"scenario\":\"{}\"}}",
                        n, o.worst, desc
                    )
                } else {
                    format!(
                        "{{\"oracle\":\"bus_sim\",\"status\":\"pass\",\"input\":[{}],\"late_visits\":{},\"polls\":{}}}",
                        n, o.late_visits, o.polls
                    )
                }
            }
            Err(e) => {
                let msg = if let Some(s) = e.downcast_ref::<String>() {
                    s.clone()
                } else if let Some(s) = e.downcast_ref::<&str>() {
                    s.to_string()
                } else {
                    "panic".to_string()
                };
                let msg = msg.replace('"', "'").replace('\n', " ");
                let bus_timing = msg.contains("attempted transmission while") || msg.contains("did not leave appropriate");
                format!(
                    "{{\"oracle\":\"bus_sim\",\"status\":\"{}\",\"kind\":\"{}\",\"input\":[{}],\"observed\":\"panic: {}\",\"scenario\":\"{}\"}}",
                    "fail",
                    if bus_timing { "bus-timing" } else { "panic" },
                    n,
                    msg,
                    desc
                )
            }
        }
    }

    /// args: [] or [count=N] -> scenarios 0..N (default VERIF_SIM_COUNT or 48);  [n] -> replay scenario n.
    /// `kind` selects which observation counts as a failure of the calling property.
    fn sweep(args: &[String], kind: &str, name: &str) -> Vec<String> {
        let _ = log::set_logger(&LOGGER);
        log::set_max_level(log::LevelFilter::Trace);
        std::panic::set_hook(Box::new(|_| {}));
        let is_kind = |r: &str, k: &str| r.contains(&format!("\"kind\":\"{}\"", k));
        let rename = |r: String| r.replace("\"oracle\":\"bus_sim\"", &format!("\"oracle\":\"{}\"", name));
        if let Some(n) = args.first().and_then(|a| a.parse::<u64>().ok()) {
            TRACE.store(std::env::var("VERIF_SIM_TRACE").is_ok(), std::sync::atomic::Ordering::Relaxed);
            let r = one(n);
            if r.contains("\"status\":\"fail\"") && !is_kind(&r, kind) {
                return vec![rename(r.replace("\"status\":\"fail\"", "\"status\":\"pass\""))];
            }
            return vec![rename(r)];
        }
        let count: u64 = args
            .iter()
            .find_map(|a| a.strip_prefix("count=").and_then(|c| c.parse().ok()))
            .or_else(|| std::env::var("VERIF_SIM_COUNT").ok().and_then(|s| s.parse().ok()))
            .unwrap_or(48);
        let base: u64 = args.iter().find_map(|a| a.strip_prefix("base=").and_then(|c| c.parse().ok())).unwrap_or(0);
        let threads = 12u64;
        let results = std::sync::Mutex::new(Vec::new());
        std::thread::scope(|sc| {
            for t in 0..threads {
                let results = &results;
                sc.spawn(move || {
                    let mut n = t;
                    while n < count {
                        let r = one(n + base);
                        results.lock().unwrap().push((n + base, r));
                        n += threads;
                    }
                });
            }
        });
        let mut all = results.into_inner().unwrap();
        all.sort();
        let mut late = 0usize;
        let mut other = Vec::new();
        let mut fails = Vec::new();
        for (n, r) in &all {
            if r.contains("\"status\":\"fail\"") {
                if is_kind(r, kind) {
                    fails.push(rename(r.clone()));
                } else {
                    other.push(*n);
                }
            } else if let Some(p) = r.find("\"late_visits\":") {
                late += r[p + 14..].split(|c: char| !c.is_ascii_digit()).next().unwrap().parse::<usize>().unwrap_or(0);
            }
        }
        if !fails.is_empty() {
            fails.truncate(3);
            return fails;
        }
        vec![format!(
            "{{\"oracle\":\"{}\",\"status\":\"pass\",\"evaluations\":{},\"late_token_visits\":{},\"scenarios_failing_another_kind\":{:?}}}",
            name,
            all.len(),
            late,
            other
        )]
    }

    /// C05: no panic inside poll (other than the simulator bus' own timing assertions)
    pub fn bus_sim_c05(args: &[String], _seed: u64) -> Vec<String> {
        sweep(args, "panic", "bus_sim_c05")
    }
    /// C13: at most one application message cycle on a token that arrived later than TTR
    pub fn bus_sim_c13(args: &[String], _seed: u64) -> Vec<String> {
        sweep(args, "hold-time", "bus_sim_c13")
    }
    /// C01: the repository's simulator bus saw no transmission into a running one and no missing idle time
    pub fn bus_sim_c01(args: &[String], _seed: u64) -> Vec<String> {
        sweep(args, "bus-timing", "bus_sim_c01")
    }
}
