// Native oracles for gsd-parser (public API only): reference encoder written from the C20 statement.
mod gsd_oracles {
use gsd_parser::*;
use std::sync::Arc;

fn lcg(s: &mut u64) -> u64 { *s = s.wrapping_mul(6364136223846793005).wrapping_add(1442695040888963407); *s >> 33 }

fn ty_from(code: i64, a: i64, b: i64) -> UserPrmDataType {
    match code { 0 => UserPrmDataType::Unsigned8, 1 => UserPrmDataType::Unsigned16, 2 => UserPrmDataType::Unsigned32,
        3 => UserPrmDataType::Signed8, 4 => UserPrmDataType::Signed16, 5 => UserPrmDataType::Signed32,
        6 => UserPrmDataType::Bit(a as u8), _ => UserPrmDataType::BitArea(a as u8, b as u8) }
}
fn ty_code(t: UserPrmDataType) -> (i64, i64, i64) {
    match t { UserPrmDataType::Unsigned8 => (0, 0, 0), UserPrmDataType::Unsigned16 => (1, 0, 0), UserPrmDataType::Unsigned32 => (2, 0, 0),
        UserPrmDataType::Signed8 => (3, 0, 0), UserPrmDataType::Signed16 => (4, 0, 0), UserPrmDataType::Signed32 => (5, 0, 0),
        UserPrmDataType::Bit(b) => (6, b as i64, 0), UserPrmDataType::BitArea(f, l) => (7, f as i64, l as i64) }
}
/// reference: Some(new bytes) if the value is in range, None if it must be rejected
pub fn ref_write(t: UserPrmDataType, v: i64, s: &[u8]) -> Option<Vec<u8>> {
    let mut o = s.to_vec();
    let put = |o: &mut Vec<u8>, n: usize, u: u64| { for i in 0..n { o[i] = (u >> (8 * (n - 1 - i))) as u8; } };
    match t {
        UserPrmDataType::Unsigned8 => { if !(0..=255).contains(&v) { return None; } put(&mut o, 1, v as u64) }
        UserPrmDataType::Unsigned16 => { if !(0..=65535).contains(&v) { return None; } put(&mut o, 2, v as u64) }
        UserPrmDataType::Unsigned32 => { if !(0..=4294967295).contains(&v) { return None; } put(&mut o, 4, v as u64) }
        UserPrmDataType::Signed8 => { if !(-128..=127).contains(&v) { return None; } put(&mut o, 1, (v as i8) as u8 as u64) }
        UserPrmDataType::Signed16 => { if !(-32768..=32767).contains(&v) { return None; } put(&mut o, 2, (v as i16) as u16 as u64) }
        UserPrmDataType::Signed32 => { if !(-2147483648..=2147483647).contains(&v) { return None; } put(&mut o, 4, (v as i32) as u32 as u64) }
        UserPrmDataType::Bit(b) => { if v != 0 && v != 1 { return None; } o[0] = (o[0] & !(1 << b)) | ((v as u8) << b) }
        UserPrmDataType::BitArea(f, l) => {
            let w = (l - f + 1) as u32;
            if v < 0 || v >= (1i64 << w) { return None; }
            let mask = (((1u16 << w) - 1) as u8) << f;
            o[0] = (o[0] & !mask) | ((v as u8) << f)
        }
    }
    Some(o)
}

fn write_case(t: UserPrmDataType, v: i64, s0: &[u8]) -> Result<(), String> {
    let mut s = s0.to_vec();
    let r = std::panic::catch_unwind(move || { let r = t.write_value_to_slice(v, &mut s); (r.is_ok(), s) });
    let want = ref_write(t, v, s0);
    match (r, want) {
        (Err(_), _) => Err("write_value_to_slice panicked".into()),
        (Ok((true, got)), Some(w)) => if got == w { Ok(()) } else { Err(format!("wrote {got:02x?}, bit-exact encoding is {w:02x?}")) },
        (Ok((false, got)), None) => if got == s0 { Ok(()) } else { Err(format!("rejected value but changed the block to {got:02x?}")) },
        (Ok((true, got)), None) => Err(format!("accepted out-of-range value, block now {got:02x?}")),
        (Ok((false, _)), Some(w)) => Err(format!("rejected in-range value (expected {w:02x?})")),
    }
}

fn known_class(t: UserPrmDataType, s0: &[u8]) -> bool {
    // known finding F15: BitArea assigns the whole byte; fails whenever a neighbouring bit of the byte is set
    if let UserPrmDataType::BitArea(f, l) = t {
        let mask = (((1u16 << (l - f + 1)) - 1) as u8) << f;
        return s0[0] & !mask != 0;
    }
    false
}

/// C20.write: args = [type_code a b value s0 s1 s2 s3] replays; none = enumeration (known-finding class excluded)
pub fn c20_write(args: &[String], _seed: u64) -> Vec<String> {
    std::panic::set_hook(Box::new(|_| {}));
    if args.len() >= 5 {
        let v: Vec<i64> = args.iter().map(|s| s.parse().unwrap()).collect();
        let t = ty_from(v[0], v[1], v[2]);
        let s0: Vec<u8> = v[4..].iter().map(|x| *x as u8).chain([0u8; 4]).take(4).collect();
        let r = write_case(t, v[3], &s0);
        return vec![format!("{{\"oracle\":\"c20_write\",\"status\":\"{}\",\"input\":[{}],\"observed\":\"{}\"}}",
            if r.is_ok() { "pass" } else { "fail" }, v.iter().map(|x| x.to_string()).collect::<Vec<_>>().join(","), r.err().unwrap_or_default().replace('"', "'"))];
    }
    let mut types = vec![UserPrmDataType::Unsigned8, UserPrmDataType::Unsigned16, UserPrmDataType::Unsigned32,
        UserPrmDataType::Signed8, UserPrmDataType::Signed16, UserPrmDataType::Signed32];
    for b in 0..8u8 { types.push(UserPrmDataType::Bit(b)); }
    for f in 0..8u8 { for l in f..8u8 { types.push(UserPrmDataType::BitArea(f, l)); } }
    let vals: Vec<i64> = vec![i64::MIN, -4294967297, -4294967296, -2147483649, -2147483648, -65537, -65536, -32769, -32768, -32767, -257, -256, -129, -128, -127, -2, -1,
        0, 1, 2, 3, 4, 5, 7, 8, 15, 16, 31, 32, 63, 64, 127, 128, 129, 254, 255, 256, 257, 511, 512, 32767, 32768, 65535, 65536, 0x1234, 0x123456, 0x12345678, 2147483647, 2147483648, 4294967295, 4294967296, i64::MAX];
    let pats: [[u8; 4]; 5] = [[0, 0, 0, 0], [0xff; 4], [0xa5, 0x5a, 0xc3, 0x3c], [0x80, 1, 2, 3], [0x01, 0xfe, 0, 0xff]];
    let mut n = 0u64;
    let mut skipped = 0u64;
    for t in &types { for v in &vals { for p in &pats {
        if known_class(*t, p) { skipped += 1; continue; }
        n += 1;
        if let Err(e) = write_case(*t, *v, p) {
            let (c, a, b) = ty_code(*t);
            return vec![format!("{{\"oracle\":\"c20_write\",\"status\":\"fail\",\"input\":[{c},{a},{b},{v},{},{},{},{}],\"observed\":\"{:?} value {v}: {}\",\"evaluations\":{n}}}", p[0], p[1], p[2], p[3], t, e.replace('"', "'"))];
        }
    } } }
    vec![format!("{{\"oracle\":\"c20_write\",\"status\":\"pass\",\"evaluations\":{n},\"skipped_known_finding_class\":{skipped}}}")]
}

// ---- builder: constants overlaid by defaults field by field; set_prm changes only its field; errors leave the block unchanged
fn mk_def(name: &str, t: UserPrmDataType, default: i64, c: PrmValueConstraint, texts: Option<Vec<(&str, i64)>>) -> Arc<UserPrmDataDefinition> {
    Arc::new(UserPrmDataDefinition { name: name.into(), data_type: t, default_value: default, constraint: c,
        text_ref: texts.map(|v| Arc::new(v.into_iter().map(|(k, x)| (k.to_string(), x)).collect())), changeable: true, visible: true })
}

fn builder_case(seed: u64) -> Result<(), String> {
    let mut s = seed.wrapping_mul(0x9e3779b97f4a7c15) | 1;
    // layout: const block 6 bytes, then fields that never share bits (bit fields in distinct bytes so that F15 is not involved)
    let consts: Vec<u8> = (0..6).map(|_| lcg(&mut s) as u8 & 0x00).collect();
    let fields: Vec<(usize, Arc<UserPrmDataDefinition>)> = vec![
        (0, mk_def("u8", UserPrmDataType::Unsigned8, (lcg(&mut s) % 200) as i64, PrmValueConstraint::MinMax(0, 200), None)),
        (1, mk_def("s16", UserPrmDataType::Signed16, -5, PrmValueConstraint::MinMax(-1000, 1000), None)),
        (3, mk_def("bit", UserPrmDataType::Bit((lcg(&mut s) % 8) as u8), 1, PrmValueConstraint::Enum(vec![0, 1]), Some(vec![("off", 0), ("on", 1), ("bad", 7)]))),
        (4, mk_def("area", UserPrmDataType::BitArea(2, 4), 3, PrmValueConstraint::Unconstrained, None)),
        (5, mk_def("enum", UserPrmDataType::Unsigned8, 10, PrmValueConstraint::Enum(vec![10, 20, 30]), Some(vec![("ten", 10), ("forty", 40)]))),
    ];
    // constant-block layouts: one block / two adjacent blocks / a patch block overlapping the image / descending offsets /
    // a gap between blocks (zero-filled) - "constants underneath" in every listed order
    // byte 4 carries the BitArea field: its constant stays 0 so that known finding F15 (BitArea assigns the whole byte) is not involved
    let cb: Vec<u8> = (0..6).map(|i| if i == 4 { 0 } else { lcg(&mut s) as u8 }).collect();
    let data_const: Vec<(usize, Vec<u8>)> = match lcg(&mut s) % 6 {
        0 => vec![(0, consts.clone())],
        1 => vec![(0, cb[..3].to_vec()), (3, cb[3..].to_vec())],
        2 => vec![(0, cb.clone()), (2, vec![0xA5, 0x5A])],
        3 => vec![(3, cb[3..].to_vec()), (0, cb[..3].to_vec())],
        4 => vec![(0, cb[..2].to_vec()), (4, cb[4..].to_vec())],
        _ => vec![(0, cb.clone()), (1, vec![0x11]), (0, vec![0x22, 0x33])],
    };
    // the listed blocks are overlaid in order on a zero-filled block that grows as needed (statement: "the block equals
    // the constant bytes overlaid with the parameter values")
    let mut model: Vec<u8> = Vec::new();
    for (off, blk) in &data_const {
        if model.len() < off + blk.len() { model.resize(off + blk.len(), 0); }
        model[*off..off + blk.len()].copy_from_slice(blk);
    }
    if model.len() < 6 { model.resize(6, 0); }
    // bits outside the fields stay whatever the constants say; the fields below only use bytes 0..6
    let desc = UserPrmData { length: 6, data_const: data_const.clone(), data_ref: fields.clone() };
    for (off, d) in &fields { let w = ref_write(d.data_type, d.default_value, &model[*off..]).ok_or("default out of range")?; model[*off..*off + w.len()].copy_from_slice(&w); }
    let mut b = PrmBuilder::new(&desc).map_err(|_| "PrmBuilder::new failed for in-range defaults".to_string())?;
    if b.as_bytes() != &model[..] { return Err(format!("new(): block {:02x?}, constants overlaid by defaults give {:02x?}", b.as_bytes(), model)); }
    for step in 0..24 {
        let (off, d) = &fields[(lcg(&mut s) % fields.len() as u64) as usize];
        let v: i64 = match lcg(&mut s) % 6 { 0 => 0, 1 => 1, 2 => -1, 3 => (lcg(&mut s) % 64) as i64, 4 => 1001, _ => (lcg(&mut s) % 2000) as i64 - 1000 };
        let valid = match &d.constraint { PrmValueConstraint::MinMax(a, z) => *a <= v && v <= *z, PrmValueConstraint::Enum(e) => e.contains(&v), PrmValueConstraint::Unconstrained => true };
        let want = if valid { ref_write(d.data_type, v, &model[*off..]) } else { None };
        let before = b.as_bytes().to_vec();
        let use_text = lcg(&mut s) % 5 == 0 && d.text_ref.is_some();
        let (ok, what) = if lcg(&mut s) % 11 == 0 {
            // statement: "unknown names are rejected and leave the block unchanged" - also names that are *close* to a defined
            // one (other capitalisation, surrounding blank, prefix, empty); none of them is defined in `fields`
            let near: String = match lcg(&mut s) % 7 {
                0 => "no-such-prm".to_string(),
                1 => d.name.to_uppercase(),
                2 => { let mut c = d.name.chars(); let f = c.next().unwrap(); f.to_uppercase().chain(c).collect() }
                3 => format!("{} ", d.name),
                4 => format!(" {}", d.name),
                5 => d.name[..d.name.len() - 1].to_string(),
                _ => String::new(),
            };
            let ok = if lcg(&mut s) % 3 == 0 { b.set_prm_from_text(&near, "on").is_ok() } else { b.set_prm(&near, v).is_ok() };
            if ok { return Err(format!("step {step}: undefined parameter name {near:?} was accepted")); }
            (ok, format!("step {step}: set_prm({near:?}, {v})"))
        } else if use_text {
            let texts = d.text_ref.as_ref().unwrap();
            let keys: Vec<&String> = texts.keys().collect();
            let k = if lcg(&mut s) % 4 == 0 { "nonexistent".to_string() } else { keys[(lcg(&mut s) % keys.len() as u64) as usize].clone() };
            let tv = texts.get(&k).copied();
            let valid_t = tv.map(|tv| match &d.constraint { PrmValueConstraint::MinMax(a, z) => *a <= tv && tv <= *z, PrmValueConstraint::Enum(e) => e.contains(&tv), PrmValueConstraint::Unconstrained => true }).unwrap_or(false);
            let want_t = if valid_t { ref_write(d.data_type, tv.unwrap(), &model[*off..]) } else { None };
            let ok = b.set_prm_from_text(&d.name, &k).is_ok();
            if let (true, Some(w)) = (ok, &want_t) { model[*off..*off + w.len()].copy_from_slice(w); }
            if ok != want_t.is_some() { return Err(format!("step {step}: set_prm_from_text({}, {k:?}) returned ok={ok}, expected ok={}", d.name, want_t.is_some())); }
            (ok, format!("step {step}: set_prm_from_text({}, {k:?})", d.name))
        } else {
            let ok = b.set_prm(&d.name, v).is_ok();
            if let (true, Some(w)) = (ok, &want) { model[*off..*off + w.len()].copy_from_slice(w); }
            if ok != want.is_some() { return Err(format!("step {step}: set_prm({}, {v}) returned ok={ok}, expected ok={}", d.name, want.is_some())); }
            (ok, format!("step {step}: set_prm({}, {v})", d.name))
        };
        if !ok && b.as_bytes() != &before[..] { return Err(format!("{what} failed but changed the block {before:02x?} -> {:02x?}", b.as_bytes())); }
        if b.as_bytes() != &model[..] { return Err(format!("{what}: block {:02x?}, expected {:02x?}", b.as_bytes(), model)); }
    }
    Ok(())
}

/// C20.builder: args = [seed] replays one generated history; none = 400 histories from VERIF_SEED
pub fn c20_builder(args: &[String], seed: u64) -> Vec<String> {
    std::panic::set_hook(Box::new(|_| {}));
    let run = |sd: u64| match std::panic::catch_unwind(|| builder_case(sd)) { Ok(r) => r, Err(_) => Err("panic".into()) };
    if args.len() == 1 {
        let sd: u64 = args[0].parse().unwrap();
        let r = run(sd);
        return vec![format!("{{\"oracle\":\"c20_builder\",\"status\":\"{}\",\"input\":[{sd}],\"observed\":\"{}\"}}", if r.is_ok() { "pass" } else { "fail" }, r.err().unwrap_or_default().replace('"', "'"))];
    }
    for i in 0..400u64 {
        let sd = seed.wrapping_mul(1000).wrapping_add(i);
        if let Err(e) = run(sd) {
            return vec![format!("{{\"oracle\":\"c20_builder\",\"status\":\"fail\",\"input\":[{sd}],\"observed\":\"{}\",\"evaluations\":{}}}", e.replace('"', "'"), i + 1)];
        }
    }
    vec![format!("{{\"oracle\":\"c20_builder\",\"status\":\"pass\",\"evaluations\":400}}")]
}
}
