// C11 (token acceptance) over bounded histories through the public API (bounded stand-in / fallback; NOT a proof).
//
// One real FdlActiveStation (#7) on the repository's SimulatorPhy bus; this oracle plays every other station through a
// second PHY with bus-conforming timing (it transmits only when it holds the token by the station's own hand-over, at
// least 40 bit times after the last telegram).  After a fixed prologue (#15 is polled into the ring and receives the
// token) every sequence over the action alphabet
//     A  token from the registered predecessor to #7
//     B  token from stranger #9 to #7          C  token from stranger #11 to #7
//     N  neutral telegram (status request to an absent station)
//     L  silence longer than #7's token-lost time-out (the station recovers the token itself)
//     S  token from the registered predecessor, then the successor that is handed the token stays silent
//        (the pass must be repeated exactly twice, then the successor is dropped; a successor that was heard is never dropped)
// up to the given depth is run, and every token offer is judged against the statement of C11:
//   accept at once from the registered predecessor; from another station only on its second consecutive offer; a first
//   offer is declined, and an offer made before the station last held the token does not count as "first".
// "Accepted" is observed on the bus: the station starts transmitting as token holder within 300 bit times.
pub mod c11_hist {
    use profirust::fdl;
    use profirust::phy::ProfibusPhy;
    use profirust::time::{Duration, Instant};

    const TS: u8 = 7;
    const P15: u8 = 15;
    const BAUD: profirust::Baudrate = profirust::Baudrate::B500000;
    const SLOT: u16 = 200;

    #[derive(Debug, Clone, PartialEq)]
    enum Ev {
        Token { da: u8, sa: u8 },
        Data { da: u8, sa: u8, status_req: bool, response: bool },
        Sc,
    }

    struct World {
        now: Instant,
        dt: Duration,
        station: fdl::FdlActiveStation,
        sphy: profirust::phy::SimulatorPhy,
        env: profirust::phy::SimulatorPhy,
        mon: profirust::phy::SimulatorPhy,
        last_activity: Instant,
        last_pending: usize,
        log: Vec<(Instant, Ev)>,
        seen: usize,
    }

    fn bits(b: u32) -> Duration {
        BAUD.bits_to_time(b)
    }

    impl World {
        fn new() -> Self {
            let bus = profirust::phy::SimulatorPhy::new(BAUD, "phy#mon");
            let mut param = fdl::ParametersBuilder::new(TS, BAUD);
            param.highest_station_address(20).slot_bits(SLOT).gap_wait_rotations(1);
            let mut station = fdl::FdlActiveStation::new(param.build());
            station.set_online();
            World {
                now: Instant::ZERO,
                dt: Duration::from_micros(4),
                station,
                sphy: bus.duplicate("phy#7"),
                env: bus.duplicate("phy#env"),
                mon: bus.duplicate("phy#mon"),
                last_activity: Instant::ZERO,
                last_pending: 0,
                log: Vec::new(),
                seen: 0,
                // keep `bus` alive through the duplicates
            }
        }

        /// one poll step of the real station plus monitoring
        fn step(&mut self) {
            self.sphy.set_bus_time(self.now);
            self.station.poll(self.now, &mut self.sphy, &mut ());
            let log = &mut self.log;
            let now = self.now;
            let mut got = false;
            self.mon.receive_all_telegrams(now, |t, _| {
                got = true;
                log.push((
                    now,
                    match t {
                        fdl::Telegram::Token(t) => Ev::Token { da: t.da, sa: t.sa },
                        fdl::Telegram::Data(d) => Ev::Data {
                            da: d.h.da,
                            sa: d.h.sa,
                            status_req: d.is_fdl_status_request().is_some(),
                            response: d.is_response().is_some(),
                        },
                        fdl::Telegram::ShortConfirmation(_) => Ev::Sc,
                    },
                ));
            });
            let pend = self.mon.poll_pending_received_bytes(now);
            if got || pend != self.last_pending {
                self.last_activity = now;
            }
            self.last_pending = pend;
            self.now += self.dt;
        }

        /// new events since the last call
        fn fresh(&mut self) -> Vec<Ev> {
            let r = self.log[self.seen..].iter().map(|e| e.1.clone()).collect();
            self.seen = self.log.len();
            r
        }

        fn run_bits(&mut self, b: u32) {
            let end = self.now + bits(b);
            while self.now < end {
                self.step();
            }
        }

        /// run until `pred` holds for a fresh event (returns it) or `max_bits` pass
        fn until<F: Fn(&Ev) -> bool>(&mut self, max_bits: u32, pred: F) -> Option<Ev> {
            let end = self.now + bits(max_bits);
            while self.now < end {
                self.step();
                // the matching event stays "fresh" for whoever looks next (it may be the hand-over itself)
                if let Some(k) = (self.seen..self.log.len()).find(|k| pred(&self.log[*k].1)) {
                    self.seen = k;
                    return Some(self.log[k].1.clone());
                }
                self.seen = self.log.len();
            }
            None
        }

        /// transmit as the environment, bus-conforming: bus idle for at least 40 bit times
        fn send(&mut self, bytes: &[u8]) {
            while self.now < self.last_activity + bits(40) || self.last_pending != 0 {
                self.step();
            }
            self.sphy.set_bus_time(self.now);
            let n = bytes.len();
            self.env.transmit_data(self.now, |buf| {
                buf[..n].copy_from_slice(bytes);
                (n, ())
            });
            self.last_activity = self.now + bits(11 * n as u32);
            // let it go out completely (the station observes it byte by byte)
            self.run_bits(11 * n as u32 + 2);
        }
    }

    fn token(da: u8, sa: u8) -> Vec<u8> {
        vec![0xDC, da, sa]
    }
    fn sd1(da: u8, sa: u8, fc: u8) -> Vec<u8> {
        vec![0x10, da, sa, fc, da.wrapping_add(sa).wrapping_add(fc), 0x16]
    }

    fn from_station(e: &Ev) -> bool {
        match e {
            Ev::Token { sa, .. } => *sa == TS,
            Ev::Data { sa, response, .. } => *sa == TS && !*response,
            Ev::Sc => false,
        }
    }

    /// Wait until the station hands the token to someone else (token 7 -> X, X != 7); the environment answers GAP polls
    /// addressed to #15 ("ready to enter the ring") so that it is (re)admitted.  Returns X.
    fn await_handover(w: &mut World, max_bits: u32) -> Option<u8> {
        let end = w.now + bits(max_bits);
        while w.now < end {
            w.step();
            for e in w.fresh() {
                match e {
                    Ev::Token { da, sa } if sa == TS && da != TS => return Some(da),
                    Ev::Data { da, sa, status_req: true, .. } if sa == TS && da == P15 => {
                        // reply after min Tsdr (the station waits one slot time for it)
                        w.run_bits(14);
                        let n = 6;
                        let bytes = sd1(TS, P15, 0x20);
                        w.sphy.set_bus_time(w.now);
                        w.env.transmit_data(w.now, |buf| {
                            buf[..n].copy_from_slice(&bytes);
                            (n, ())
                        });
                        w.last_activity = w.now + bits(66);
                        w.run_bits(68);
                    }
                    _ => (),
                }
            }
        }
        None
    }

    /// the environment (as `x`) shows that it took the token: a status request to an absent station
    fn neutral(w: &mut World, x: u8) -> Result<(), String> {
        w.send(&sd1(30, x, 0x49));
        // nobody answers; wait out the own slot time
        w.run_bits(u32::from(SLOT) + 20);
        // C11: a successor that was heard is never dropped, the pass is not repeated
        if w.fresh().iter().any(|e| matches!(e, Ev::Token { sa, .. } if *sa == TS)) {
            return Err(format!("the station repeated its token pass although successor #{x} was heard transmitting"));
        }
        Ok(())
    }

    /// The environment stays silent after being handed the token (to `x`): the station must repeat the pass exactly
    /// twice (three passes in all), then stop passing to `x`.
    fn silent_successor(w: &mut World, x: u8) -> Result<(), String> {
        let mut passes = 1;
        let mut others = 0;
        let end = w.now + bits(3 * (u32::from(SLOT) + 140) + 200);
        while w.now < end {
            w.step();
            for e in w.fresh() {
                match e {
                    Ev::Token { da, sa } if sa == TS && da == x => passes += 1,
                    Ev::Token { sa, .. } | Ev::Data { sa, .. } if sa == TS => others += 1,
                    _ => (),
                }
            }
        }
        if passes != 3 && std::env::var("VERIF_SIM_TRACE").is_ok() {
            for (t, e) in w.log.iter().rev().take(14).rev() {
                eprintln!("   {:>9} us  {:?}", t.total_micros(), e);
            }
        }
        if passes != 3 {
            return Err(format!("silent successor #{x}: the station passed the token to it {passes} times in all (C11: first pass plus exactly two repeats), then sent {others} other telegrams"));
        }
        // afterwards #x is no longer the successor: no further pass to it until it has been polled in again
        let end = w.now + bits(2500);
        while w.now < end {
            w.step();
            for e in w.fresh() {
                match e {
                    Ev::Token { da, sa } if sa == TS && da == x => {
                        return Err(format!("silent successor #{x}: the station passed the token to it a fourth time instead of removing it from its ring view"));
                    }
                    Ev::Data { da, sa, status_req: true, .. } if sa == TS && da == x => return Ok(()),
                    _ => (),
                }
            }
        }
        Ok(())
    }

    fn run_history(h: &str, trace: bool) -> Result<String, String> {
        let mut w = World::new();
        // ---- prologue: the station claims the bus, polls #15 into the ring and hands over the token
        let x = await_handover(&mut w, 120_000).ok_or("prologue: the station never handed the token over")?;
        if x != P15 {
            return Err(format!("prologue: token handed to #{x}, expected #15"));
        }
        neutral(&mut w, P15)?;
        // model of the station's acceptance state (from the statement of C11)
        let mut ps: u8 = P15; // registered predecessor
        let mut pending: Option<u8> = None; // stranger whose first offer was declined
        let mut pending_fresh = false; // nothing at all happened since that offer
        let mut held_since_pending = false;
        let mut holder_env: u8 = P15; // who the environment currently is
        let mut notes = String::new();
        for (i, a) in h.chars().enumerate() {
            match a {
                'N' => {
                    neutral(&mut w, holder_env)?;
                    pending_fresh = false;
                }
                'S' => {
                    // token from the registered predecessor (accepted), then the successor stays silent
                    w.send(&token(TS, ps));
                    let _ = w.fresh();
                    if w.until(300, from_station).is_none() {
                        return Err(format!("action {i} (S): token from the registered predecessor #{ps} was declined"));
                    }
                    pending = None;
                    pending_fresh = false;
                    held_since_pending = true;
                    let x = await_handover(&mut w, 200_000).ok_or(format!("action {i} (S): the station never handed the token on"))?;
                    silent_successor(&mut w, x).map_err(|e| format!("action {i} (S): {e}"))?;
                    // the station is alone now; it polls #15 in again and hands the token over
                    match await_handover(&mut w, 400_000) {
                        Some(x2) if x2 == P15 => {
                            holder_env = P15;
                            ps = P15;
                            neutral(&mut w, P15)?;
                        }
                        Some(_) | None => {
                            // ring view not as simple as the model assumes from here on: stop judging this history
                            notes.push_str(&format!("[{i}:S model ends]"));
                            return Ok(notes);
                        }
                    }
                }
                'L' => {
                    // stay silent until the station recovers the token (time-out (6 + 2*7) slot times) and hands it on again
                    let seen = w.until(12_000, from_station);
                    if seen.is_none() {
                        return Err(format!("action {i} (L): the station did not recover the token after its time-out"));
                    }
                    held_since_pending = true;
                    pending_fresh = false;
                    match await_handover(&mut w, 200_000) {
                        Some(x) => {
                            holder_env = x;
                            neutral(&mut w, x)?;
                        }
                        None => return Err(format!("action {i} (L): after recovering the token the station never handed it on")),
                    }
                }
                'A' | 'B' | 'C' => {
                    let sa = match a {
                        'A' => ps,
                        'B' => 9,
                        _ => 11,
                    };
                    // expectation from the statement
                    let expect: Option<bool> = if sa == ps {
                        Some(true)
                    } else if pending == Some(sa) && pending_fresh {
                        Some(true)
                    } else if pending == Some(sa) && held_since_pending {
                        Some(false)
                    } else if pending == Some(sa) {
                        None // other traffic in between, the station did not hold the token: not decided by the statement
                    } else {
                        Some(false)
                    };
                    w.send(&token(TS, sa));
                    let _ = w.fresh();
                    let took = w.until(300, from_station).is_some();
                    if trace {
                        eprintln!("action {i} ({a}): token #{sa} -> #7, ps={ps} pending={pending:?} fresh={pending_fresh} held={held_since_pending}: expect {expect:?}, observed accepted={took}");
                    }
                    if let Some(e) = expect {
                        if e != took {
                            return Err(format!(
                                "action {i} ({a}): token from #{sa} to #7 (registered predecessor #{ps}, earlier declined offer from {pending:?}{}) was {} - C11 requires it to be {}",
                                if held_since_pending { ", the station held the token since" } else { "" },
                                if took { "accepted" } else { "declined" },
                                if e { "accepted" } else { "declined" }
                            ));
                        }
                    } else {
                        notes.push_str(&format!("[{i}:{a} undecided]"));
                    }
                    if took {
                        if sa != ps {
                            ps = sa;
                        }
                        pending = None;
                        pending_fresh = false;
                        held_since_pending = false;
                        match await_handover(&mut w, 200_000) {
                            Some(x) => {
                                holder_env = x;
                                neutral(&mut w, x)?;
                            }
                            None => return Err(format!("action {i} ({a}): after accepting the token the station never handed it on")),
                        }
                    } else {
                        if sa != ps {
                            pending = Some(sa);
                            pending_fresh = true;
                            held_since_pending = false;
                        }
                        // the offering station still holds the token as far as the bus is concerned
                        holder_env = sa;
                    }
                }
                other => return Err(format!("unknown action {other}")),
            }
        }
        Ok(notes)
    }

    fn one(h: &str, trace: bool) -> (bool, String) {
        let hh = h.to_string();
        let res = std::panic::catch_unwind(std::panic::AssertUnwindSafe(|| run_history(&hh, trace)));
        match res {
            Ok(Ok(notes)) => (true, notes),
            Ok(Err(e)) => (false, e),
            Err(e) => {
                let msg = if let Some(s) = e.downcast_ref::<String>() {
                    s.clone()
                } else if let Some(s) = e.downcast_ref::<&str>() {
                    s.to_string()
                } else {
                    "panic".to_string()
                };
                (false, format!("panic: {}", msg))
            }
        }
    }

    fn all_histories(depth: usize) -> Vec<String> {
        let alphabet = ['A', 'B', 'C', 'N', 'L', 'S'];
        let mut out = vec![String::new()];
        let mut frontier = vec![String::new()];
        for _ in 0..depth {
            let mut next = Vec::new();
            for f in &frontier {
                for a in alphabet {
                    let mut s = f.clone();
                    s.push(a);
                    next.push(s);
                }
            }
            out.extend(next.iter().cloned());
            frontier = next;
        }
        out.retain(|s| !s.is_empty());
        out
    }

    /// args: [depth=N] -> all histories up to length N (default 4);  [hist=ABLB] or a bare history -> replay
    pub fn c11_hist(args: &[String], _seed: u64) -> Vec<String> {
        std::panic::set_hook(Box::new(|_| {}));
        let esc = |s: &str| s.replace('\\', "/").replace('"', "'").replace('\n', " ");
        let replay = args.iter().find_map(|a| {
            a.strip_prefix("hist=").map(|s| s.to_string()).or_else(|| {
                if !a.is_empty() && a.chars().all(|c| "ABCNLS".contains(c)) { Some(a.clone()) } else { None }
            })
        });
        if let Some(h) = replay {
            let (ok, msg) = one(&h, std::env::var("VERIF_SIM_TRACE").is_ok());
            return vec![format!(
                "{{\"oracle\":\"c11_hist\",\"status\":\"{}\",\"input\":[\"{}\"],\"observed\":\"{}\"}}",
                if ok { "pass" } else { "fail" },
                h,
                esc(&msg)
            )];
        }
        let depth: usize = args.iter().find_map(|a| a.strip_prefix("depth=").and_then(|c| c.parse().ok())).unwrap_or(4);
        let hs = all_histories(depth);
        let threads = 12usize;
        let fails = std::sync::Mutex::new(Vec::new());
        let undecided = std::sync::atomic::AtomicUsize::new(0);
        std::thread::scope(|sc| {
            for t in 0..threads {
                let hs = &hs;
                let fails = &fails;
                let undecided = &undecided;
                sc.spawn(move || {
                    let mut i = t;
                    while i < hs.len() {
                        let (ok, msg) = one(&hs[i], false);
                        if !ok {
                            fails.lock().unwrap().push((hs[i].clone(), msg));
                        } else if !msg.is_empty() {
                            undecided.fetch_add(1, std::sync::atomic::Ordering::Relaxed);
                        }
                        i += threads;
                    }
                });
            }
        });
        let mut fails = fails.into_inner().unwrap();
        fails.sort_by_key(|f| (f.0.len(), f.0.clone()));
        if let Some((h, msg)) = fails.first() {
            return vec![format!(
                "{{\"oracle\":\"c11_hist\",\"status\":\"fail\",\"input\":[\"{}\"],\"observed\":\"{}\",\"failing_histories\":{}}}",
                h,
                esc(msg),
                fails.len()
            )];
        }
        vec![format!(
            "{{\"oracle\":\"c11_hist\",\"status\":\"pass\",\"evaluations\":{},\"histories_with_an_offer_the_statement_does_not_decide\":{}}}",
            hs.len(),
            undecided.load(std::sync::atomic::Ordering::Relaxed)
        )]
    }
}
