// Native oracle for the generic ProfibusPhy receive helpers (C16): a queue PHY obeying the assumed PHY contract
// (receive_data shows the buffered bytes in arrival order and drops exactly the returned count).
mod phy_oracles {
use profirust::fdl::{DataTelegramHeader, FunctionCode, Telegram, TokenTelegram, TelegramTx};
use profirust::phy::ProfibusPhy;
use profirust::time::Instant;

struct QueuePhy { rx: Vec<u8> }
impl ProfibusPhy for QueuePhy {
    fn poll_transmission(&mut self, _now: Instant) -> bool { false }
    fn transmit_data<F, R>(&mut self, _now: Instant, f: F) -> R where F: FnOnce(&mut [u8]) -> (usize, R) { let mut b = [0u8; 256]; f(&mut b).1 }
    fn receive_data<F, R>(&mut self, _now: Instant, f: F) -> R where F: FnOnce(&[u8]) -> (usize, R) {
        let (n, r) = f(&self.rx[..]);
        assert!(n <= self.rx.len(), "helper dropped more bytes than buffered");
        self.rx.drain(..n);
        r
    }
}
fn lcg(s: &mut u64) -> u64 { *s = s.wrapping_mul(6364136223846793005).wrapping_add(1442695040888963407); *s >> 33 }

#[derive(Clone, Debug, PartialEq)]
enum T { Sc, Tok(u8, u8), Data(u8, u8, Option<u8>, Option<u8>, u8, Vec<u8>) }
fn encode(t: &T) -> Vec<u8> {
    let mut b = [0u8; 300];
    let n = match t {
        T::Sc => TelegramTx::new(&mut b).send_short_confirmation().bytes_sent(),
        T::Tok(da, sa) => TelegramTx::new(&mut b).send_token_telegram(*da, *sa).bytes_sent(),
        T::Data(da, sa, dsap, ssap, fc, pdu) => TelegramTx::new(&mut b).send_data_telegram(
            DataTelegramHeader { da: *da, sa: *sa, dsap: *dsap, ssap: *ssap, fc: FunctionCode::from_byte(*fc).unwrap() }, pdu.len(), |w| w.copy_from_slice(pdu)).bytes_sent(),
    };
    b[..n].to_vec()
}
fn view(t: &Telegram) -> T {
    match t { Telegram::ShortConfirmation(_) => T::Sc, Telegram::Token(TokenTelegram { da, sa }) => T::Tok(*da, *sa),
        Telegram::Data(d) => T::Data(d.h.da, d.h.sa, d.h.dsap, d.h.ssap, d.h.fc.to_byte(), d.pdu.to_vec()) }
}
fn any_t(s: &mut u64) -> T {
    match lcg(s) % 5 { 0 => T::Sc, 1 => T::Tok(lcg(s) as u8 & 0x7f, lcg(s) as u8 & 0x7f),
        _ => { let n = [0usize, 0, 1, 2, 7, 8, 9, 30, 244][(lcg(s) % 9) as usize];
               let (dsap, ssap) = match lcg(s) % 3 { 0 => (None, None), 1 => (Some(60), Some(62)), _ => (Some(3), None) };
               T::Data(lcg(s) as u8 & 0x7f, lcg(s) as u8 & 0x7f, dsap, ssap, [0x6d, 0x08, 0x49, 0x5c, 0x00][(lcg(s) % 5) as usize], (0..n).map(|_| lcg(s) as u8).collect()) } }
}

fn history(seed: u64, use_all: bool) -> Result<(), String> {
    let mut s = seed.wrapping_mul(0x9e3779b97f4a7c15) | 1;
    let k = 1 + (lcg(&mut s) % 5) as usize;
    let ts: Vec<T> = (0..k).map(|_| any_t(&mut s)).collect();
    let stream: Vec<u8> = ts.iter().flat_map(encode).collect();
    let mut phy = QueuePhy { rx: vec![] };
    let mut got: Vec<T> = vec![];
    let mut fed = 0usize;
    let mut polls = 0;
    while (fed < stream.len() || !phy.rx.is_empty()) && polls < 5000 {
        polls += 1;
        let chunk = ((lcg(&mut s) % 9) as usize).min(stream.len() - fed);
        phy.rx.extend_from_slice(&stream[fed..fed + chunk]);
        fed += chunk;
        let before = phy.rx.len();
        if use_all {
            let mut lasts = vec![];
            let pending_before = phy.rx.clone();
            let r = phy.receive_all_telegrams(Instant::ZERO, |t, is_last| { got.push(view(&t)); lasts.push(is_last); is_last });
            // is_last exactly for the telegram with nothing buffered behind it
            for (i, l) in lasts.iter().enumerate() { if *l != (i + 1 == lasts.len() && phy.rx.is_empty()) { return Err(format!("is_last flags {lasts:?} with {} bytes left, buffer was {:02x?}", phy.rx.len(), pending_before)); } }
            if r.is_some() != lasts.last().copied().unwrap_or(false) { return Err("return value present although the last callback was not flagged last".into()); }
        } else {
            let _ = phy.receive_telegram(Instant::ZERO, |t| { got.push(view(&t)); });
        }
        if phy.rx.len() > before { return Err("buffer grew".into()); }
        if phy.poll_pending_received_bytes(Instant::ZERO) != phy.rx.len() { return Err("poll_pending_received_bytes disagrees with the buffer".into()); }
    }
    if got != ts { return Err(format!("delivered {got:?}, sent {ts:?}")); }
    // undecodable data is discarded and a telegram arriving afterwards is received correctly
    // the garbage is any byte string that the real decoder rejects at once; bytes with start-delimiter values inside or at
    // the end of it are part of the garbage (nothing of it may stay behind and fuse with the telegram that follows)
    let mut garbage: Vec<u8> = vec![0x00, 0x13, 0x37];
    if lcg(&mut s) % 4 != 0 {
        let n = 1 + (lcg(&mut s) % 6) as usize;
        let cand: Vec<u8> = (0..n).map(|i| { let r = lcg(&mut s);
            if i == 0 { [0x00u8, 0x13, 0xff, 0x16, 0x7e][(r % 5) as usize] } else { [0x10u8, 0x68, 0xa2, 0xdc, 0xe5, (r >> 8) as u8, 0x02, 0x16][(r % 8) as usize] } }).collect();
        if matches!(Telegram::deserialize(&cand), Some(Err(_))) { garbage = cand; }
    }
    phy.rx.extend_from_slice(&garbage);
    let mut n = 0;
    if use_all { let _ = phy.receive_all_telegrams(Instant::ZERO, |_t, _l| { n += 1; }); } else { let _ = phy.receive_telegram(Instant::ZERO, |_t| { n += 1; }); }
    if n != 0 || !phy.rx.is_empty() { return Err(format!("garbage {garbage:02x?} not discarded: {} callbacks, {} bytes left", n, phy.rx.len())); }
    let t = any_t(&mut s);
    phy.rx.extend_from_slice(&encode(&t));
    let mut after = vec![];
    if use_all { let _ = phy.receive_all_telegrams(Instant::ZERO, |t, _l| { after.push(view(&t)); }); } else { let _ = phy.receive_telegram(Instant::ZERO, |t| { after.push(view(&t)); }); }
    if after != vec![t.clone()] { return Err(format!("after discarded garbage {garbage:02x?}: delivered {after:?}, sent {t:?}")); }
    Ok(())
}

/// C16: args = [seed, 0|1] replays; none = 2 x 1500 histories
pub fn c16_chunks(args: &[String], seed: u64) -> Vec<String> {
    std::panic::set_hook(Box::new(|_| {}));
    let run = |sd: u64, all: bool| match std::panic::catch_unwind(|| history(sd, all)) { Ok(r) => r, Err(_) => Err("panic".into()) };
    if args.len() == 2 {
        let sd: u64 = args[0].parse().unwrap(); let all = args[1] != "0";
        let r = run(sd, all);
        return vec![format!("{{\"oracle\":\"c16_chunks\",\"status\":\"{}\",\"input\":[{sd},{}],\"observed\":\"{}\"}}", if r.is_ok() { "pass" } else { "fail" }, all as u8, r.err().unwrap_or_default().replace('"', "'"))];
    }
    let mut n = 0;
    for all in [false, true] { for i in 0..1500u64 {
        let sd = seed.wrapping_mul(10000).wrapping_add(i); n += 1;
        if let Err(e) = run(sd, all) { return vec![format!("{{\"oracle\":\"c16_chunks\",\"status\":\"fail\",\"input\":[{sd},{}],\"observed\":\"{}\",\"evaluations\":{n}}}", all as u8, e.replace('"', "'"))]; }
    } }
    vec![format!("{{\"oracle\":\"c16_chunks\",\"status\":\"pass\",\"evaluations\":{n}}}")]
}
}
