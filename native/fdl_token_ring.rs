// Native oracle for src/fdl/token_ring.rs: reference model (ordered set + cyclic neighbours) written from C02.
use super::*;
use std::collections::BTreeSet;

#[derive(Clone, Debug, PartialEq)]
struct Model { s: BTreeSet<u8>, st: u8 /*0 uninit 1 disc 2 verif 3 valid*/, ts: u8, ns: u8, ps: u8 }

fn in_cyc(sa: u8, da: u8, i: u8) -> bool { if da > sa { sa <= i && i < da } else { i >= sa || i < da } }
fn strictly_between(sa: u8, da: u8, i: u8) -> bool { if da > sa { sa < i && i < da } else { i > sa || i < da } }
impl Model {
    fn neighbours(&mut self) {
        self.ns = self.s.iter().copied().find(|a| *a > self.ts).or(self.s.iter().copied().next()).unwrap_or(self.ts);
        self.ps = self.s.iter().rev().copied().find(|a| *a < self.ts).or(self.s.iter().rev().copied().next()).unwrap_or(self.ts);
    }
    fn upd(&mut self, sa: u8, da: u8) { self.s = self.s.iter().copied().filter(|i| !in_cyc(sa, da, *i)).collect(); self.s.insert(sa); self.neighbours(); }
    fn verified(&self, sa: u8, da: u8) -> bool { self.s.contains(&sa) && self.s.contains(&da) && !self.s.iter().any(|i| strictly_between(sa, da, *i)) }
    fn witness(&mut self, sa: u8, da: u8) {
        if sa > 125 || da > 125 { return; }
        match self.st {
            0 => if da <= sa { self.st = 1 },
            1 => { self.upd(sa, da); if da <= sa { self.st = 2 } }
            2 => if !self.verified(sa, da) { self.upd(sa, da); self.st = 1 } else if da <= sa { self.st = 3 },
            _ => self.upd(sa, da),
        }
    }
}
fn state_code(r: &TokenRing) -> u8 { match r.las_state { LasState::Uninitialized => 0, LasState::Discovery => 1, LasState::Verification => 2, LasState::Valid => 3 } }
fn same(r: &TokenRing, m: &Model) -> Result<(), String> {
    let las: BTreeSet<u8> = r.iter_active_stations().collect();
    if las != m.s || r.next_station() != m.ns || r.previous_station() != m.ps || state_code(r) != m.st {
        return Err(format!("ring LAS={las:?} NS={} PS={} state={}; reference LAS={:?} NS={} PS={} state={}", r.next_station(), r.previous_station(), state_code(r), m.s, m.ns, m.ps, m.st));
    }
    Ok(())
}
fn lcg(s: &mut u64) -> u64 { *s = s.wrapping_mul(6364136223846793005).wrapping_add(1442695040888963407); *s >> 33 }

fn history(seed: u64) -> Result<(), String> {
    let mut s = seed.wrapping_mul(0x9e3779b97f4a7c15) | 1;
    let alphabet: Vec<u8> = match lcg(&mut s) % 3 { 0 => vec![0, 1, 2, 3, 7, 124, 125], 1 => vec![0, 5, 6, 7, 8, 29, 125, 126, 127], _ => (0..=127).collect() };
    let ts = [0u8, 1, 7, 124, 125][(lcg(&mut s) % 5) as usize];
    let mut p = crate::fdl::Parameters::default();
    p.address = ts;
    let mut r = TokenRing::new(&p);
    let mut m = Model { s: [ts].into_iter().collect(), st: 0, ts, ns: ts, ps: ts };
    same(&r, &m).map_err(|e| format!("after new(): {e}"))?;
    let mut log = String::new();
    for step in 0..40 {
        let a = alphabet[(lcg(&mut s) % alphabet.len() as u64) as usize];
        let b = alphabet[(lcg(&mut s) % alphabet.len() as u64) as usize];
        match lcg(&mut s) % 10 {
            0 => { if a <= 125 && a != ts { r.set_next_station(a); m.s.insert(a); m.upd(ts, a); log += &format!("setns({a}) "); if r.next_station() != a { return Err(format!("step {step}: {log}: NS={} after set_next_station({a})", r.next_station())); } } }
            1 => { if a <= 127 { r.remove_station(a); m.s.remove(&a); m.neighbours(); log += &format!("remove({a}) "); } }
            2 => { r.claim_token(); m.st = 3; log += "claim "; }
            _ => {
                // mostly ascending cyclic passes so that verification can succeed
                let (sa, da) = if lcg(&mut s) % 3 == 0 || m.s.is_empty() { (a, b) } else { let v: Vec<u8> = m.s.iter().copied().collect(); let i = (lcg(&mut s) % v.len() as u64) as usize; (v[i], v[(i + 1) % v.len()]) };
                r.witness_token_pass(sa, da); m.witness(sa, da); log += &format!("pass({sa}->{da}) ");
            }
        }
        same(&r, &m).map_err(|e| format!("step {step}: {log}: {e}"))?;
    }
    Ok(())
}

/// C02 (local): args = [seed] replays one generated history; none = 3000 histories from VERIF_SEED
pub fn c02_las(args: &[String], seed: u64) -> Vec<String> {
    if std::env::var("VERIF_VERBOSE").is_err() { std::panic::set_hook(Box::new(|_| {})); }
    let run = |sd: u64| match std::panic::catch_unwind(|| history(sd)) { Ok(r) => r, Err(_) => Err("panic".into()) };
    if args.len() == 1 {
        let sd: u64 = args[0].parse().unwrap();
        let r = run(sd);
        return vec![format!("{{\"oracle\":\"c02_las\",\"status\":\"{}\",\"input\":[{sd}],\"observed\":\"{}\"}}", if r.is_ok() { "pass" } else { "fail" }, r.err().unwrap_or_default().replace('"', "'"))];
    }
    for i in 0..3000u64 {
        let sd = seed.wrapping_mul(100000).wrapping_add(i);
        if let Err(e) = run(sd) {
            return vec![format!("{{\"oracle\":\"c02_las\",\"status\":\"fail\",\"input\":[{sd}],\"observed\":\"{}\",\"evaluations\":{}}}", e.replace('"', "'"), i + 1)];
        }
    }
    vec![format!("{{\"oracle\":\"c02_las\",\"status\":\"pass\",\"evaluations\":3000}}")]
}

/// Cross-check of the Las128 primitive contracts (units/common/prims_las.rs) against the real bitvec expressions used in
/// token_ring.rs: range any(), range fill(false), iter_ones find / rev find / next / next_back.  Sampled (not a proof).
pub fn prims_bits(_args: &[String], seed: u64) -> Vec<String> {
    std::panic::set_hook(Box::new(|_| {}));
    let mut s = seed ^ 0x5151_5151;
    let mut n = 0u64;
    for _ in 0..20000 {
        let raw = [(lcg(&mut s) << 32 | lcg(&mut s)) as usize & if lcg(&mut s) % 4 == 0 { 0x8000_0000_0000_0101 } else { usize::MAX }, (lcg(&mut s) << 31 ^ lcg(&mut s)) as usize & if lcg(&mut s) % 3 == 0 { 0 } else { usize::MAX }];
        let b: bitvec::BitArr!(for 128) = bitvec::array::BitArray::new(raw);
        let member = |i: usize| (raw[i / 64] >> (i % 64)) & 1 == 1;
        let (mut lo, mut hi) = ((lcg(&mut s) % 129) as usize, (lcg(&mut s) % 129) as usize);
        if lo > hi { core::mem::swap(&mut lo, &mut hi); }
        let t = (lcg(&mut s) % 128) as u8;
        n += 1;
        let fail = |what: &str| vec![format!("{{\"oracle\":\"prims_bits\",\"status\":\"fail\",\"input\":[{},{},{lo},{hi},{t}],\"observed\":\"{what}\"}}", raw[0], raw[1])];
        if b[lo..hi].any() != (lo..hi).any(|i| member(i)) { return fail("range any()"); }
        let mut c = b.clone(); c[lo..hi].fill(false);
        if (0..128).any(|i| c[i] != (member(i) && !(lo <= i && i < hi))) { return fail("range fill(false)"); }
        let it = || b.iter_ones().map(|a| a as u8);
        if it().find(|a| *a > t) != (t as usize + 1..128).find(|i| member(*i)).map(|i| i as u8) { return fail("first above"); }
        if it().rev().find(|a| *a < t) != (0..t as usize).rev().find(|i| member(*i)).map(|i| i as u8) { return fail("last below"); }
        if it().next() != (0..128).find(|i| member(*i)).map(|i| i as u8) { return fail("first"); }
        if it().next_back() != (0..128).rev().find(|i| member(*i)).map(|i| i as u8) { return fail("last"); }
        if (0..128).any(|i| b[i] != member(i)) { return fail("index"); }
    }
    vec![format!("{{\"oracle\":\"prims_bits\",\"status\":\"pass\",\"evaluations\":{n}}}")]
}
