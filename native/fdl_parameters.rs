// Native oracle for src/fdl/parameters.rs: exhaustive over t = floor(d / 10 ms) for 10 ms..650 s (65000 classes).
use super::*;

fn wd_case(us: u64) -> Result<(), String> {
    let t = (us / 10_000) as u32;
    match watchdog_factors(crate::time::Duration::from_micros(us)) {
        Some(Ok((f1, f2))) => {
            let (f1, f2) = (u32::from(f1), u32::from(f2));
            if f1 < 1 || f2 < 1 { return Err(format!("factor 0: ({f1},{f2})")); }
            if f1 * f2 < t { return Err(format!("factors ({f1},{f2}) give {} ms < requested {} ms", f1 * f2 * 10, us / 1000)); }
            if (f2 - 1) * f1 >= t { return Err(format!("factors ({f1},{f2}): f2 not minimal for t={t}")); }
            if f1 != 1 && t <= 255 * (f1 - 1) { return Err(format!("factors ({f1},{f2}): f1 not minimal for t={t}")); }
            Ok(())
        }
        other => Err(format!("watchdog_factors({us} us) = {other:?}")),
    }
}

/// C03.wd: args = [microseconds] replays; none = every t in 1..=65000 at offsets 0, 1 us, 9999 us
pub fn c03_wd(args: &[String], _seed: u64) -> Vec<String> {
    std::panic::set_hook(Box::new(|_| {}));
    let run = |us: u64| match std::panic::catch_unwind(|| wd_case(us)) { Ok(r) => r, Err(_) => Err("panic".into()) };
    if args.len() == 1 {
        let us: u64 = args[0].parse().unwrap();
        let r = run(us);
        return vec![format!("{{\"oracle\":\"c03_wd\",\"status\":\"{}\",\"input\":[{us}],\"observed\":\"{}\"}}", if r.is_ok() { "pass" } else { "fail" }, r.err().unwrap_or_default().replace('"', "'"))];
    }
    let mut n = 0u64;
    for t in 1u64..=65000 {
        for off in [0u64, 1, 9999] {
            let us = t * 10_000 + off;
            if us > 650_000_000 { continue; }
            n += 1;
            if let Err(e) = run(us) {
                return vec![format!("{{\"oracle\":\"c03_wd\",\"status\":\"fail\",\"input\":[{us}],\"observed\":\"{}\",\"evaluations\":{n}}}", e.replace('"', "'"))];
            }
        }
    }
    vec![format!("{{\"oracle\":\"c03_wd\",\"status\":\"pass\",\"evaluations\":{n}}}")]
}
