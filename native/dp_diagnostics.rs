// Native oracle for src/dp/diagnostics.rs (child module of the scratch copy).
use super::*;

#[derive(Debug, PartialEq)]
enum RefBlock { Ident(Vec<u8>), Device(Vec<u8>), Channel { module: u8, channel: u8, input: bool, output: bool, dtype: u8, err: u8 } }

fn ref_blocks(r: &[u8]) -> Vec<(usize, usize, RefBlock)> {
    let mut out = vec![];
    let mut c = 0;
    while c < r.len() {
        let h = r[c];
        let rem = r.len() - c;
        match h >> 6 {
            2 => { if rem < 3 { break; } out.push((c, c + 3, RefBlock::Channel { module: h & 0x3f, channel: r[c + 1] & 0x3f, input: r[c + 1] & 0x40 != 0, output: r[c + 1] & 0x80 != 0, dtype: { let k = r[c + 2] >> 5; if (1..=6).contains(&k) { k } else { 7 } }, err: r[c + 2] & 0x1f })); c += 3; }
            3 => break,
            k => { let l = (h & 0x3f) as usize; if l == 0 || l > rem { break; } let body = r[c + 1..c + l].to_vec(); out.push((c, c + l, if k == 1 { RefBlock::Ident(body) } else { RefBlock::Device(body) })); c += l; }
        }
    }
    out
}

fn dtype_code(d: ChannelDataType) -> u8 { match d { ChannelDataType::Bit => 1, ChannelDataType::Bit2 => 2, ChannelDataType::Bit4 => 3, ChannelDataType::Byte => 4, ChannelDataType::Word => 5, ChannelDataType::DWord => 6, ChannelDataType::Invalid => 7 } }
fn err_code(e: ChannelError) -> u8 { match e { ChannelError::ShortCircuit => 1, ChannelError::UnderVoltage => 2, ChannelError::OverVoltage => 3, ChannelError::OverLoad => 4, ChannelError::OverTemperature => 5, ChannelError::LineBreak => 6, ChannelError::UpperLimitOvershoot => 7, ChannelError::LowerLimitUndershoot => 8, ChannelError::Error => 9, ChannelError::Reserved(r) => r, ChannelError::Vendor(v) => v } }

fn iter_case(data: &[u8], bufsize: usize) -> Result<(), String> {
    let data = data.to_vec();
    let r = std::panic::catch_unwind(move || {
        let mut storage = vec![0xEEu8; bufsize];
        let mut d = ExtendedDiagnostics::from_buffer(managed::ManagedSlice::Borrowed(&mut storage[..]));
        let stored = d.fill(&data);
        let want_stored = bufsize > 0 && data.len() <= bufsize;
        if stored != want_stored { return Err(format!("fill returned {stored}, expected {want_stored}")); }
        match d.raw_diag_buffer() {
            None => if bufsize != 0 { return Err("raw_diag_buffer None with a buffer".to_string()); },
            Some(rb) => if stored && rb != &data[..] { return Err(format!("raw {rb:02x?} != reply bytes")); } else if !stored && !rb.is_empty() { return Err("oversize data stored".to_string()); },
        }
        let raw: Vec<u8> = d.raw_diag_buffer().map(|x| x.to_vec()).unwrap_or_default();
        let want = ref_blocks(&raw);
        let mut got = vec![];
        let mut it = d.iter_diag_blocks();
        let mut guard = 0;
        while let Some(b) = it.next() {
            guard += 1;
            if guard > 300 { return Err("iterator does not terminate".into()); }
            got.push(match b {
                ExtDiagBlock::Identifier(bits) => { let mut v = vec![0u8; bits.len() / 8]; for i in bits.iter_ones() { v[i / 8] |= 1 << (i % 8); } RefBlock::Ident(v) }
                ExtDiagBlock::Device(dv) => RefBlock::Device(dv.to_vec()),
                ExtDiagBlock::Channel(c) => RefBlock::Channel { module: c.module, channel: c.channel, input: c.input, output: c.output, dtype: dtype_code(c.dtype), err: err_code(c.error) },
            });
        }
        // Identifier bits are Lsb0 over the bytes; the reference keeps the bytes
        let wantb: Vec<RefBlock> = want.into_iter().map(|(_, _, b)| b).collect();
        if got != wantb { return Err(format!("blocks {got:?}, expected {wantb:?}")); }
        let _ = format!("{:?}", d); // Debug formatting must not panic either
        // history: a later reply that does not fit must leave the stored diagnostics untouched; one that fits replaces them
        if bufsize > 0 {
            let before: Vec<u8> = d.raw_diag_buffer().unwrap().to_vec();
            let big: Vec<u8> = (0..bufsize + 1 + data.len() % 3).map(|i| 0xA0u8.wrapping_add(i as u8)).collect();
            if d.fill(&big) { return Err("oversized extended diagnostics reported as stored".into()); }
            if d.raw_diag_buffer().unwrap() != &before[..] { return Err(format!("oversized reply changed the stored diagnostics {:02x?} -> {:02x?}", before, d.raw_diag_buffer().unwrap())); }
            let small = [0x43u8, 0x00, 0x01];
            if small.len() <= bufsize {
                if !d.fill(&small) || d.raw_diag_buffer().unwrap() != &small[..] { return Err("fitting reply not stored after an oversized one".into()); }
            }
        }
        Ok(())
    });
    match r { Ok(x) => x, Err(_) => Err("panic".into()) }
}

fn hex(b: &[u8]) -> String { b.iter().map(|x| format!("{x:02x}")).collect::<Vec<_>>().join(" ") }
fn lcg(s: &mut u64) -> u64 { *s = s.wrapping_mul(6364136223846793005).wrapping_add(1442695040888963407); *s >> 33 }

/// C17 iterator: args = [bufsize, hex bytes] replays; none = all 1- and 2-byte strings, all headers with structured tails, random
pub fn c17_iter(args: &[String], seed: u64) -> Vec<String> {
    std::panic::set_hook(Box::new(|_| {}));
    if args.len() >= 1 {
        let bufsize: usize = args[0].parse().unwrap();
        let data: Vec<u8> = args[1..].iter().flat_map(|a| a.split_whitespace().map(|s| u8::from_str_radix(s, 16).unwrap()).collect::<Vec<_>>()).collect();
        let r = iter_case(&data, bufsize);
        return vec![format!("{{\"oracle\":\"c17_iter\",\"status\":\"{}\",\"input\":[\"{bufsize}\",\"{}\"],\"observed\":\"{}\"}}", if r.is_ok() { "pass" } else { "fail" }, hex(&data), r.err().unwrap_or_default().replace('"', "'"))];
    }
    let mut n = 0u64;
    let mut s = seed ^ 0xabcdef;
    let mut fail = |d: &[u8], bs: usize, e: String, n: u64| vec![format!("{{\"oracle\":\"c17_iter\",\"status\":\"fail\",\"input\":[\"{bs}\",\"{}\"],\"observed\":\"{}\",\"evaluations\":{n}}}", hex(d), e.replace('"', "'"))];
    for bs in [0usize, 1, 2, 8, 64, 244] {
        n += 1; if let Err(e) = iter_case(&[], bs) { return fail(&[], bs, e, n); }
        for a in 0..=255u8 { n += 1; if let Err(e) = iter_case(&[a], bs) { return fail(&[a], bs, e, n); } }
    }
    for a in 0..=255u8 { for b in 0..=255u8 { n += 1; if let Err(e) = iter_case(&[a, b], 64) { return fail(&[a, b], 64, e, n); } } }
    for h in 0..=255u8 { for tail in [0usize, 1, 2, 3, 7, 31, 32, 33, 62, 63, 64] {
        let mut d = vec![h]; for i in 0..tail { d.push((lcg(&mut s) as u8) | if i % 3 == 0 { 0x80 } else { 0 }); }
        d.extend([0x83, 0x41, 0x27]);
        n += 1; if let Err(e) = iter_case(&d, 244) { return fail(&d, 244, e, n); }
    } }
    for _ in 0..20000 { let len = (lcg(&mut s) % 40) as usize; let d: Vec<u8> = (0..len).map(|_| { let x = lcg(&mut s) as u8; if lcg(&mut s) % 3 == 0 { x & 0x47 } else { x } }).collect(); let bs = [8usize, 64, 244][(lcg(&mut s) % 3) as usize];
        n += 1; if let Err(e) = iter_case(&d, bs) { return fail(&d, bs, e, n); } }
    vec![format!("{{\"oracle\":\"c17_iter\",\"status\":\"pass\",\"evaluations\":{n}}}")]
}
