// Driver for native witness search / replay (compiled against a scratch copy of /repo).
// usage: verif-native <oracle> [args...]   prints `VERIF-RESULT {json}` lines.
include!("/verif/native/gsd_oracles.rs");
include!("/verif/native/phy_oracles.rs");
include!("/verif/native/bus_sim.rs");
include!("/verif/native/c11_hist.rs");
fn main() {
    let args: Vec<String> = std::env::args().collect();
    if args.len() < 2 {
        eprintln!("usage: verif-native <oracle> [args]");
        std::process::exit(2);
    }
    let seed: u64 = std::env::var("VERIF_SEED").ok().and_then(|s| s.parse().ok()).unwrap_or(0);
    let rest: Vec<String> = args[2..].to_vec();
    let out: Vec<String> = match args[1].as_str() {
        #[cfg(rahix_profirust_verif)]
        "c11_accept" => profirust::fdl::__verif_native_active::c11_accept(&rest, seed),
        #[cfg(rahix_profirust_verif)]
        "c15_sched" => profirust::fdl::__verif_native_active::c15_sched(&rest, seed),
        #[cfg(rahix_profirust_verif)]
        "c01_timing" => profirust::fdl::__verif_native_active::c01_timing(&rest, seed),
        #[cfg(rahix_profirust_verif)]
        "c12_gap" => profirust::fdl::__verif_native_active::c12_gap(&rest, seed),
        #[cfg(rahix_profirust_verif)]
        "c10_decode" => profirust::fdl::__verif_native_telegram::c10_decode(&rest, seed),
        #[cfg(rahix_profirust_verif)]
        "c10_first_byte" => profirust::fdl::__verif_native_telegram::c10_first_byte(&rest, seed),
        #[cfg(rahix_profirust_verif)]
        "c09_roundtrip" => profirust::fdl::__verif_native_telegram::c09_roundtrip(&rest, seed),
        #[cfg(rahix_profirust_verif)]
        "prims_bits" => profirust::fdl::__verif_native_token_ring::prims_bits(&rest, seed),
        #[cfg(rahix_profirust_verif)]
        "c02_las" => profirust::fdl::__verif_native_token_ring::c02_las(&rest, seed),
        #[cfg(rahix_profirust_verif)]
        "c03_wd" => profirust::fdl::__verif_native_parameters::c03_wd(&rest, seed),
        #[cfg(rahix_profirust_verif)]
        "c08_user_diag" => profirust::dp::__verif_native_peripheral::c08_user_diag(&rest, seed),
        #[cfg(rahix_profirust_verif)]
        "c03_lengths" => profirust::dp::__verif_native_peripheral::c03_lengths(&rest, seed),
        #[cfg(rahix_profirust_verif)]
        "c07_recover" => profirust::dp::__verif_native_peripheral::c07_recover(&rest, seed),
        #[cfg(rahix_profirust_verif)]
        "c17_iter" => profirust::dp::__verif_native_diagnostics::c17_iter(&rest, seed),
        "c11_hist" => c11_hist::c11_hist(&rest, seed),
        "bus_sim_c05" => bus_sim::bus_sim_c05(&rest, seed),
        "bus_sim_c13" => bus_sim::bus_sim_c13(&rest, seed),
        "bus_sim_c01" => bus_sim::bus_sim_c01(&rest, seed),
        "c16_chunks" => phy_oracles::c16_chunks(&rest, seed),
        "c20_write" => gsd_oracles::c20_write(&rest, seed),
        "c20_builder" => gsd_oracles::c20_builder(&rest, seed),
        other => {
            eprintln!("unknown oracle {other}");
            std::process::exit(2);
        }
    };
    for l in out {
        println!("VERIF-RESULT {l}");
    }
}
