// Native oracle for C07.recover: the real Peripheral functions against the assumed reference slave, exhaustive over the
// joint control state (bring-up state x FCB x retry count x diag_needed x slave state x stored bit x stored response).
use super::*;

#[derive(Clone, Copy, PartialEq, Eq, Debug)]
enum SlSt { WaitPrm, WaitCfg, DataExch }
#[derive(Clone, Copy, PartialEq, Eq, Debug)]
enum Resp { Sc, Diag, Data, Rs }
#[derive(Clone, Copy, Debug)]
struct Slave { st: SlSt, stored: Option<bool>, last: Resp }

fn slave_step(s: &mut Slave, dsap: Option<u8>, fcb: crate::fdl::FrameCountBit) -> Resp {
    let (fcv, bit) = match fcb { crate::fdl::FrameCountBit::First => (false, true), crate::fdl::FrameCountBit::High => (true, true), crate::fdl::FrameCountBit::Low => (true, false), _ => (false, false) };
    if fcv && s.stored == Some(bit) { return s.last; }
    s.stored = Some(bit);
    let r = match dsap {
        Some(60) => Resp::Diag,
        Some(61) => { s.st = SlSt::WaitCfg; Resp::Sc }
        Some(62) => if s.st != SlSt::WaitPrm { s.st = SlSt::DataExch; Resp::Sc } else { Resp::Rs },
        None => if s.st == SlSt::DataExch { Resp::Data } else { Resp::Rs },
        _ => Resp::Rs,
    };
    s.last = r;
    r
}
fn joint_inv(p: &Peripheral, s: &Slave) -> bool {
    // state correlation: the slave waits for Chk_Cfg only while the master is still going to send it
    if matches!(p.state, PeripheralState::ValidateConfig | PeripheralState::PreDataExchange | PeripheralState::DataExchange) && s.st == SlSt::WaitCfg { return false; }
    let bit = matches!(p.fcb, crate::fdl::FrameCountBit::First | crate::fdl::FrameCountBit::High);
    let fcv = p.fcb != crate::fdl::FrameCountBit::First;
    if !fcv || s.stored != Some(bit) { return true; }
    match p.state {
        // the slave's stored response answers the very request that is being retransmitted, and the slave is in the
        // state that processing this request left it in
        PeripheralState::Offline | PeripheralState::ValidateConfig => s.last == Resp::Diag,
        PeripheralState::WaitForParam => s.last == Resp::Sc && s.st == SlSt::WaitCfg,
        PeripheralState::WaitForConfig => (s.last == Resp::Sc && s.st == SlSt::DataExch) || (s.last == Resp::Rs && s.st == SlSt::WaitPrm),
        _ => true,
    }
}

fn rounds_to_run(state: PeripheralState, fcb: crate::fdl::FrameCountBit, retry: u8, diag_needed: bool, limit: u8, mut sl: Slave, ni: usize, trace: bool, lose_first: usize, user_diag_from: Option<usize>) -> Result<usize, String> {
    let mut params = crate::fdl::Parameters::default();
    params.max_retry_limit = limit;
    let fdl = crate::fdl::FdlActiveStation::new(params);
    let dp = crate::dp::__verif_native_master::vn_master_state();
    let mut pi_i = vec![0u8; ni];
    let mut pi_q = vec![0u8; 2];
    let prm = [1u8, 2, 3];
    let cfg = [0x11u8];
    let options = PeripheralOptions { user_parameters: Some(&prm), config: Some(&cfg), ..Default::default() };
    let mut p = Peripheral::new(8, options, &mut pi_i[..], &mut pi_q[..]);
    p.state = state; p.fcb = fcb; p.retry_count = retry; p.diag_needed = diag_needed;
    if !joint_inv(&p, &sl) { return Ok(0); }
    let mut running_since: Option<usize> = None;
    let mut user_diag_pending = user_diag_from;
    for k in 0..60 {
        let mut buf = [0u8; 256];
        let now = crate::time::Instant::ZERO;
        // the user may ask for diagnostics at any point where no request of this peripheral is being retried (F8 excluded)
        if let Some(from) = user_diag_pending { if k >= from && p.retry_count == 0 && p.is_live() { p.request_diagnostics(); user_diag_pending = None; } }
        let image_before: Vec<u8> = p.pi_i().to_vec();
        let hp = if k % 2 == 1 { crate::fdl::HighPrioOnly::Yes } else { crate::fdl::HighPrioOnly::No };
        let r = p.transmit_telegram(now, &dp, &fdl, crate::fdl::TelegramTx::new(&mut buf), hp);
        if let Ok(res) = r {
            let n = res.bytes_sent();
            let (t, _) = crate::fdl::Telegram::deserialize(&buf[..n]).unwrap().unwrap();
            let (dsap, fcbit) = match &t { crate::fdl::Telegram::Data(d) => (d.h.dsap, match d.h.fc { crate::fdl::FunctionCode::Request { fcb, .. } => fcb, _ => crate::fdl::FrameCountBit::Inactive }), _ => (None, crate::fdl::FrameCountBit::Inactive) };
            let resp = slave_step(&mut sl, dsap, fcbit);
            if k < lose_first { if trace { eprintln!("round {k}: reply lost"); } continue; }
            let flags: u16 = 0x0400 | match sl.st { SlSt::WaitPrm => 0x0102, SlSt::WaitCfg => 0x0002, SlSt::DataExch => 0 };
            let diag_pdu = [flags as u8, (flags >> 8) as u8, 0, 1, 0x12, 0x34];
            let in_data = vec![0x5au8; ni];
            let ok = crate::fdl::FunctionCode::Response { state: crate::fdl::ResponseState::Slave, status: crate::fdl::ResponseStatus::Ok };
            let rs = crate::fdl::FunctionCode::Response { state: crate::fdl::ResponseState::Slave, status: crate::fdl::ResponseStatus::SapNotEnabled };
            let tel = match resp {
                Resp::Sc => crate::fdl::Telegram::ShortConfirmation(crate::fdl::ShortConfirmation),
                Resp::Diag => crate::fdl::Telegram::Data(crate::fdl::DataTelegram { h: crate::fdl::DataTelegramHeader { da: 1, sa: 8, dsap: Some(62), ssap: Some(60), fc: ok }, pdu: &diag_pdu }),
                Resp::Data => crate::fdl::Telegram::Data(crate::fdl::DataTelegram { h: crate::fdl::DataTelegramHeader { da: 1, sa: 8, dsap: None, ssap: None, fc: ok }, pdu: &in_data }),
                Resp::Rs => crate::fdl::Telegram::Data(crate::fdl::DataTelegram { h: crate::fdl::DataTelegramHeader { da: 1, sa: 8, dsap: None, ssap: None, fc: rs }, pdu: &[] }),
            };
            let ev = p.receive_reply(now, &dp, &fdl, tel);
            // C04: the input image changes only through a Data_Exchange reply, and then equals its payload
            if resp == Resp::Data && dsap.is_none() { if p.pi_i() != &in_data[..] { return Err(format!("round {k}: data reply not copied into the input image")); } }
            else if p.pi_i() != &image_before[..] { return Err(format!("round {k}: input image changed from {:02x?} to {:02x?} by a {:?} reply to a request with DSAP {:?} (event {:?})", image_before, p.pi_i(), resp, dsap, ev)); }
            if trace { eprintln!("round {k}: sent dsap={dsap:?} fcb={fcbit:?} -> slave {resp:?} ({:?}) -> master {:?} fcb={:?} retry={}", sl, p.state, p.fcb, p.retry_count); }
        } else if trace { eprintln!("round {k}: no telegram -> master {:?} fcb={:?} retry={}", p.state, p.fcb, p.retry_count); }
        if p.is_running() && sl.st == SlSt::DataExch { if running_since.is_none() { running_since = Some(k + 1); } } else { running_since = None; }
    }
    match running_since { Some(k) if k <= 40 => Ok(k), _ => Err(format!("not (stably) running after 60 fault-free rounds: master {:?} fcb {:?} retry {} diag_needed {}, slave {:?}", p.state, p.fcb, p.retry_count, p.diag_needed, sl)) }
}

/// args = [state fcb retry diag_needed limit sl_st stored(-1/0/1) last ni] replays with a trace; none = exhaustive enumeration
pub fn c07_recover(args: &[String], _seed: u64) -> Vec<String> {
    let states = [PeripheralState::Offline, PeripheralState::WaitForParam, PeripheralState::WaitForConfig, PeripheralState::ValidateConfig, PeripheralState::PreDataExchange, PeripheralState::DataExchange];
    let fcbs = [crate::fdl::FrameCountBit::First, crate::fdl::FrameCountBit::High, crate::fdl::FrameCountBit::Low];
    let slst = [SlSt::WaitPrm, SlSt::WaitCfg, SlSt::DataExch];
    let lasts = [Resp::Sc, Resp::Diag, Resp::Data, Resp::Rs];
    let stored = [None, Some(false), Some(true)];
    if args.len() == 11 {
        let v: Vec<i64> = args.iter().map(|s| s.parse().unwrap()).collect();
        let sl = Slave { st: slst[v[5] as usize], stored: stored[(v[6] + 1) as usize], last: lasts[v[7] as usize] };
        let r = rounds_to_run(states[v[0] as usize], fcbs[v[1] as usize], v[2] as u8, v[3] != 0, v[4] as u8, sl, v[8] as usize, true, v[9] as usize, if v[10] < 0 { None } else { Some(v[10] as usize) });
        return vec![format!("{{\"oracle\":\"c07_recover\",\"status\":\"{}\",\"input\":[{}],\"observed\":\"{}\"}}", if r.is_ok() { "pass" } else { "fail" }, v.iter().map(|x| x.to_string()).collect::<Vec<_>>().join(","), match r { Ok(k) => format!("running after {k} rounds"), Err(e) => e.replace('"', "'") })];
    }
    let mut n = 0u64;
    let mut worst = 0usize;
    for limit in [1u8, 2, 3, 7, 15] { for (si, st) in states.iter().enumerate() { for (fi, f) in fcbs.iter().enumerate() { for retry in 0..=limit + 1 { for dn in [false, true] {
        for (a, s1) in slst.iter().enumerate() { for (b, s2) in stored.iter().enumerate() { for (c, s3) in lasts.iter().enumerate() { for ni in [0usize, 2, 6] {
          for (lose_first, user_diag) in [(0usize, None), (limit as usize + 1, None), (0, Some(3usize)), (limit as usize + 1, Some(limit as usize + 4)), (1, Some(9))] {
            if limit > 3 && (lose_first != 0 || user_diag.is_some()) { continue; }
            n += 1;
            match rounds_to_run(*st, *f, retry, dn, limit, Slave { st: *s1, stored: *s2, last: *s3 }, ni, false, lose_first, user_diag) {
                Ok(k) => { if lose_first == 0 && user_diag.is_none() { worst = worst.max(k.saturating_sub(limit as usize)); } }
                Err(e) => return vec![format!("{{\"oracle\":\"c07_recover\",\"status\":\"fail\",\"input\":[{si},{fi},{retry},{},{limit},{a},{},{c},{ni},{lose_first},{}],\"observed\":\"{}\",\"evaluations\":{n}}}", dn as u8, b as i64 - 1, user_diag.map(|x| x as i64).unwrap_or(-1), e.replace('"', "'"))],
            }
          }
        } } } }
    } } } } }
    vec![format!("{{\"oracle\":\"c07_recover\",\"status\":\"pass\",\"evaluations\":{n},\"worst_rounds_minus_retry_limit\":{worst}}}")]
}

/// C08 (known finding F8): a user call request_diagnostics() between a Data_Exchange request and its reply makes the
/// next request a *different service* with the *same* frame count bit.  args ignored; single scripted history.
pub fn c08_user_diag(_args: &[String], _seed: u64) -> Vec<String> {
    let mut params = crate::fdl::Parameters::default();
    params.max_retry_limit = 3;
    let fdl = crate::fdl::FdlActiveStation::new(params);
    let dp = crate::dp::__verif_native_master::vn_master_state();
    let mut pi_i = [0u8; 2];
    let mut pi_q = [0u8; 2];
    let mut p = Peripheral::new(8, PeripheralOptions::default(), &mut pi_i[..], &mut pi_q[..]);
    p.state = PeripheralState::DataExchange;
    p.fcb = crate::fdl::FrameCountBit::High;
    let now = crate::time::Instant::ZERO;
    let send = |p: &mut Peripheral| -> (Option<u8>, u8) {
        let mut buf = [0u8; 256];
        let res = p.transmit_telegram(now, &dp, &fdl, crate::fdl::TelegramTx::new(&mut buf), crate::fdl::HighPrioOnly::No).ok().unwrap();
        match crate::fdl::Telegram::deserialize(&buf[..res.bytes_sent()]).unwrap().unwrap().0 { crate::fdl::Telegram::Data(d) => (d.h.dsap, d.h.fc.to_byte() & 0x30), _ => (None, 0) }
    };
    let (svc1, fcb1) = send(&mut p);
    p.request_diagnostics();                       // user call between request and reply
    let data = [1u8, 2];
    let reply = crate::fdl::Telegram::Data(crate::fdl::DataTelegram { h: crate::fdl::DataTelegramHeader { da: 1, sa: 8, dsap: None, ssap: None,
        fc: crate::fdl::FunctionCode::Response { state: crate::fdl::ResponseState::Slave, status: crate::fdl::ResponseStatus::Ok } }, pdu: &data });
    let _ = p.receive_reply(now, &dp, &fdl, reply);
    let (svc2, fcb2) = send(&mut p);
    let bad = fcb1 == fcb2 && svc1 != svc2;
    vec![format!("{{\"oracle\":\"c08_user_diag\",\"status\":\"{}\",\"input\":[],\"observed\":\"request 1: DSAP {svc1:?} FCB/FCV bits {fcb1:#x}; user request_diagnostics(); well-formed data reply delivered; request 2: DSAP {svc2:?} FCB/FCV bits {fcb2:#x}\"}}", if bad { "fail" } else { "pass" })]
}

/// C03.lengths (bounded stand-in for the length dimension the Kani byte harnesses cannot reach): Set_Prm carries the user
/// parameters and Chk_Cfg the configuration bytes exactly, for EVERY length up to the frame limit (user parameters
/// 0..=237, configuration 0..=244), through the real serializer; also Data_Exchange with every output length 0..=244.
pub fn c03_lengths(args: &[String], _seed: u64) -> Vec<String> {
    std::panic::set_hook(Box::new(|_| {}));
    let one = |kind: u8, n: usize| -> Result<(), String> {
        let res = std::panic::catch_unwind(|| -> Result<(), String> {
            let fdl = crate::fdl::FdlActiveStation::new(crate::fdl::Parameters::default());
            let dp = crate::dp::__verif_native_master::vn_master_state();
            let data: Vec<u8> = (0..n).map(|i| (i as u8).wrapping_mul(7).wrapping_add(3)).collect();
            let mut pi_i = vec![0u8; 1];
            let mut pi_q: Vec<u8> = if kind == 2 { data.clone() } else { vec![0u8; 1] };
            let options = PeripheralOptions {
                ident_number: 0x1234,
                user_parameters: if kind == 0 { Some(&data[..]) } else { Some(&[1, 2][..]) },
                config: if kind == 1 { Some(&data[..]) } else { Some(&[0x11][..]) },
                max_tsdr: 100,
                ..Default::default()
            };
            let mut p = Peripheral::new(8, options, &mut pi_i[..], &mut pi_q[..]);
            p.state = match kind { 0 => PeripheralState::WaitForParam, 1 => PeripheralState::WaitForConfig, _ => PeripheralState::DataExchange };
            let mut buf = [0u8; 300];
            let r = p.transmit_telegram(crate::time::Instant::ZERO, &dp, &fdl, crate::fdl::TelegramTx::new(&mut buf), crate::fdl::HighPrioOnly::No);
            let sent = match r { Ok(res) => res.bytes_sent(), Err(_) => return Err("no telegram was sent".into()) };
            let (t, used) = match crate::fdl::Telegram::deserialize(&buf[..sent]) { Some(Ok(x)) => x, other => return Err(format!("sent bytes do not decode: {other:?}")) };
            if used != sent { return Err(format!("{sent} bytes sent, {used} decode")); }
            let d = match t { crate::fdl::Telegram::Data(d) => d, _ => return Err("not a data telegram".into()) };
            match kind {
                0 => {
                    if d.h.dsap != Some(61) { return Err(format!("DSAP {:?}, Set_Prm is 61", d.h.dsap)); }
                    if d.pdu.len() != 7 + n || d.pdu[7..] != data[..] { return Err(format!("Set_Prm carries {} user parameter bytes, {} configured{}", d.pdu.len().saturating_sub(7), n, if d.pdu.len() == 7 + n { " (contents differ)" } else { "" })); }
                }
                1 => {
                    if d.h.dsap != Some(62) { return Err(format!("DSAP {:?}, Chk_Cfg is 62", d.h.dsap)); }
                    if d.pdu != &data[..] { return Err(format!("Chk_Cfg carries {} configuration bytes, {} configured{}", d.pdu.len(), n, if d.pdu.len() == n { " (contents differ)" } else { "" })); }
                }
                _ => {
                    if d.h.dsap.is_some() { return Err(format!("DSAP {:?} on Data_Exchange", d.h.dsap)); }
                    if d.pdu != &data[..] { return Err(format!("Data_Exchange carries {} output bytes, the output image has {}{}", d.pdu.len(), n, if d.pdu.len() == n { " (contents differ)" } else { "" })); }
                }
            }
            Ok(())
        });
        match res { Ok(r) => r, Err(_) => Err("panic".into()) }
    };
    let name = |k: u8| match k { 0 => "user_parameters", 1 => "config", _ => "outputs" };
    if args.len() == 2 {
        let (k, n): (u8, usize) = (args[0].parse().unwrap(), args[1].parse().unwrap());
        let r = one(k, n);
        return vec![format!("{{\"oracle\":\"c03_lengths\",\"status\":\"{}\",\"input\":[{k},{n}],\"observed\":\"{}\"}}", if r.is_ok() { "pass" } else { "fail" }, r.err().unwrap_or_default().replace('"', "'"))];
    }
    let mut evals = 0u64;
    for (k, max) in [(0u8, 237usize), (1, 244), (2, 244)] {
        for n in 0..=max {
            evals += 1;
            if let Err(e) = one(k, n) {
                return vec![format!("{{\"oracle\":\"c03_lengths\",\"status\":\"fail\",\"input\":[{k},{n}],\"observed\":\"{} length {}: {}\",\"evaluations\":{evals}}}", name(k), n, e.replace('"', "'"))];
            }
        }
    }
    vec![format!("{{\"oracle\":\"c03_lengths\",\"status\":\"pass\",\"evaluations\":{evals}}}")]
}
