// Shared helpers for the Kani harness modules (included with include!, never part of /repo).
#[allow(dead_code)]
fn vk_any_params() -> crate::fdl::Parameters {
    let mut p = crate::fdl::Parameters::default();
    p.address = kani::any();
    kani::assume(p.address <= 125);
    p.highest_station_address = kani::any();
    kani::assume(p.highest_station_address > p.address && p.highest_station_address <= 126);
    p.max_retry_limit = kani::any();
    kani::assume(p.max_retry_limit >= 1 && p.max_retry_limit <= 15);
    p.min_tsdr_bits = kani::any();
    kani::assume(p.min_tsdr_bits >= 11);
    p.gap_wait_rotations = kani::any();
    kani::assume(p.gap_wait_rotations >= 1 && p.gap_wait_rotations <= 100);
    if kani::any() {
        let f1: u8 = kani::any();
        let f2: u8 = kani::any();
        kani::assume(f1 >= 1 && f2 >= 1);
        p.watchdog_factors = Some((f1, f2));
    }
    p
}
#[allow(dead_code)]
fn vk_any_fdl() -> crate::fdl::FdlActiveStation {
    crate::fdl::FdlActiveStation::new(vk_any_params())
}
#[allow(dead_code)]
/// the FDL may ask for a high-priority-only cycle at any call
fn vk_any_hp() -> crate::fdl::HighPrioOnly {
    if kani::any() { crate::fdl::HighPrioOnly::Yes } else { crate::fdl::HighPrioOnly::No }
}

fn vk_any_instant() -> crate::time::Instant {
    let t: i64 = kani::any();
    kani::assume(t >= 0 && t < (1i64 << 50));
    crate::time::Instant::from_micros(t)
}
#[allow(dead_code)]
fn vk_any_fc() -> crate::fdl::FunctionCode {
    let b: u8 = kani::any();
    match crate::fdl::FunctionCode::from_byte(b) {
        Ok(fc) => fc,
        Err(_) => { kani::assume(false); unreachable!() }
    }
}
