// Contract stubs for the TokenRing mutators (their contracts are proved by Verus, unit las / C02) and a
// constructor for a ring with given NS/PS/validity.  With the mutators stubbed the bit set is never read.
use super::*;

pub(crate) static mut VK_REMOVED: u8 = 0;        // number of remove_station calls
pub(crate) static mut VK_REMOVED_ADDR: u8 = 0xff;
pub(crate) static mut VK_WITNESSED: u8 = 0;
pub(crate) static mut VK_SETNS: u8 = 0xff;

pub(crate) fn vk_ring(ts: u8, ns: u8, ps: u8, state: u8) -> TokenRing {
    TokenRing {
        active_stations: bitvec::array::BitArray::ZERO,
        las_state: match state { 0 => LasState::Uninitialized, 1 => LasState::Discovery, 2 => LasState::Verification, _ => LasState::Valid },
        this_station: ts,
        next_station: ns,
        previous_station: ps,
    }
}
pub(crate) fn vk_ring_ts(r: &TokenRing) -> u8 { r.this_station }

fn havoc_neighbours(r: &mut TokenRing) {
    let (ns, ps): (u8, u8) = (kani::any(), kani::any());
    // C02: NS / PS are members of the LAS (all <= 125) or TS itself
    kani::assume(ns <= 125 && ps <= 125);
    r.next_station = ns;
    r.previous_station = ps;
}

/// contract C02.witness.*: addresses > 125 change nothing; otherwise the LAS follows the case table and NS/PS are
/// recomputed (any member); the validity phase only moves along Uninitialized -> Discovery -> Verification -> Valid / back to Discovery
pub(crate) fn vk_stub_witness(r: &mut TokenRing, sa: crate::Address, da: crate::Address) {
    unsafe { VK_WITNESSED += 1; }
    if sa > 125 || da > 125 { return; }
    // own pass to the registered successor in a valid ring: the LAS, NS and PS are unchanged
    // (Verus lemma lemma_own_pass_keeps_las over the C02 contracts: the cleared interval [TS, NS) holds no other member)
    if sa == r.this_station && da == r.next_station && r.las_state == LasState::Valid { return; }
    match r.las_state {
        LasState::Uninitialized => { if da <= sa { r.las_state = LasState::Discovery; } }
        LasState::Discovery => { havoc_neighbours(r); if da <= sa { r.las_state = LasState::Verification; } }
        LasState::Verification => {
            if kani::any() { havoc_neighbours(r); r.las_state = LasState::Discovery; }
            else if da <= sa { r.las_state = LasState::Valid; }
        }
        LasState::Valid => {
            havoc_neighbours(r);
            // C02.update: a pass TS -> da makes da... (only sa is inserted); a pass from TS keeps TS in the LAS
        }
    }
}
/// contract C02.setns.*: NS' = address, LAS state unchanged
pub(crate) fn vk_stub_set_next_station(r: &mut TokenRing, address: crate::Address) {
    assert!(address <= 127 && address != r.this_station);
    unsafe { VK_SETNS = address; }
    r.next_station = address;
    let ps: u8 = kani::any();
    kani::assume(ps <= 125);
    r.previous_station = ps;
}
/// contract C02.remove.*: the address leaves the LAS; NS/PS recomputed
pub(crate) fn vk_stub_remove_station(r: &mut TokenRing, address: crate::Address) {
    assert!(address <= 127);
    unsafe { VK_REMOVED += 1; VK_REMOVED_ADDR = address; }
    havoc_neighbours(r);
    if address != r.this_station { kani::assume(r.next_station != address && r.previous_station != address); }
}
