// Cross-checks (DESIGN 3.3) of the contracts that the Verus units ASSUME for hoisted expressions (rule R8) and for
// std functions without a vstd specification: each harness runs the REAL expression / dependency and asserts the
// assumed contract.  Attached to src/lib.rs of the scratch copy.
#[allow(unused_imports)]
use super::*;

const N: usize = 8;

fn ref_sum8(s: &[u8]) -> u8 { let mut acc: u32 = 0; let mut i = 0; while i < s.len() { acc = (acc + s[i] as u32) % 256; i += 1; } acc as u8 }

/// verif_sum8: `X.iter().copied().fold(0, u8::wrapping_add)` == sum mod 256
#[kani::proof]
#[kani::unwind(10)]
fn prim_sum8() {
    let a: [u8; N] = kani::any();
    let n: usize = kani::any();
    kani::assume(n <= N);
    let s = &a[..n];
    assert!(s.iter().copied().fold(0, u8::wrapping_add) == ref_sum8(s));
}
/// verif_bool_to_usize
#[kani::proof]
fn prim_bool_to_usize() {
    let b: bool = kani::any();
    assert!(usize::from(b) == if b { 1 } else { 0 });
}
/// verif_fill_u8: `s.fill(v)`
#[kani::proof]
#[kani::unwind(10)]
fn prim_fill() {
    let mut a: [u8; N] = kani::any();
    let (n, v, i): (usize, u8, usize) = (kani::any(), kani::any(), kani::any());
    kani::assume(n <= N && i < n);
    a[..n].fill(v);
    assert!(a[i] == v);
}
/// verif_be_*: to_be_bytes of the integer types used by the user-parameter packer
#[kani::proof]
fn prim_to_be_bytes() {
    let x8: u8 = kani::any(); assert!(x8.to_be_bytes() == [x8]);
    let x16: u16 = kani::any(); assert!(x16.to_be_bytes() == [(x16 / 256) as u8, (x16 % 256) as u8]);
    let x32: u32 = kani::any(); assert!(x32.to_be_bytes() == [(x32 / 16777216) as u8, (x32 / 65536 % 256) as u8, (x32 / 256 % 256) as u8, (x32 % 256) as u8]);
    let i8_: i8 = kani::any(); assert!(i8_.to_be_bytes() == [(if i8_ >= 0 { i8_ as i32 } else { i8_ as i32 + 256 }) as u8]);
    let i16_: i16 = kani::any(); { let u = if i16_ >= 0 { i16_ as i32 } else { i16_ as i32 + 65536 }; assert!(i16_.to_be_bytes() == [(u / 256) as u8, (u % 256) as u8]); }
    let i32_: i32 = kani::any(); { let u = if i32_ >= 0 { i32_ as i64 } else { i32_ as i64 + 4294967296 }; assert!(i32_.to_be_bytes() == [(u / 16777216) as u8, (u / 65536 % 256) as u8, (u / 256 % 256) as u8, (u % 256) as u8]); }
}
/// assume_specification [i64::pow] for base 2
#[kani::proof]
#[kani::unwind(8)]
fn prim_pow2() {
    let e: u32 = kani::any();
    kani::assume(e <= 62);
    assert!(2i64.pow(e) == 1i64 << e);
}
/// assume_specification [i64::unsigned_abs] and the reflexive `From<T> for T`
#[kani::proof]
fn prim_misc() {
    let x: i64 = kani::any();
    assert!(x.unsigned_abs() as i128 == if x >= 0 { x as i128 } else { -(x as i128) });
    let y: i64 = x.into();
    assert!(y == x);
}
/// verif_map_into_*: `X.map(|v| v.map(|(v, s)| (v.into(), s)))`
#[kani::proof]
fn prim_map_into() {
    let k: u8 = kani::any();
    let (da, sa, n): (u8, u8, usize) = (kani::any(), kani::any(), kani::any());
    let x: Option<Result<(crate::fdl::TokenTelegram, usize), ()>> = match k % 3 { 0 => None, 1 => Some(Err(())), _ => Some(Ok((crate::fdl::TokenTelegram::new(da, sa), n))) };
    let r: Option<Result<(crate::fdl::Telegram, usize), ()>> = x.clone().map(|v| v.map(|(v, s)| (v.into(), s)));
    match (x, r) {
        (None, None) => (),
        (Some(Err(())), Some(Err(()))) => (),
        (Some(Ok((t, s))), Some(Ok((crate::fdl::Telegram::Token(t2), s2)))) => assert!(t == t2 && s == s2),
        _ => assert!(false),
    }
}

// ---- Las128 prims vs the real bitvec expressions of src/fdl/token_ring.rs
type Bits = bitvec::BitArr!(for 128);
fn any_bits() -> Bits { bitvec::array::BitArray::new(kani::any::<[usize; 2]>()) }

#[kani::proof]
fn prim_bits_set_get() {
    let mut b = any_bits();
    let b0 = b.clone();
    let (i, j, v): (usize, usize, bool) = (kani::any(), kani::any(), kani::any());
    kani::assume(i < 128 && j < 128);
    b.set(i, v);
    assert!(b[j] == if j == i { v } else { b0[j] });
    let z: Bits = bitvec::array::BitArray::ZERO;
    assert!(!z[j]);
}
// ---- VBuf / VBits prims vs managed::ManagedSlice and bitvec::BitSlice::from_slice (src/dp/diagnostics.rs)
#[kani::proof]
#[kani::unwind(10)]
fn prim_managed_slice() {
    let mut store: [u8; N] = kani::any();
    let s0 = store;
    let data: [u8; N] = kani::any();
    let (n, k, i): (usize, usize, usize) = (kani::any(), kani::any(), kani::any());
    kani::assume(n <= N && k <= n && i < N);
    let mut m: managed::ManagedSlice<u8> = managed::ManagedSlice::Borrowed(&mut store[..n]);
    assert!(m.len() == n);
    m[..k].copy_from_slice(&data[..k]);
    assert!(m.len() == n);
    if i < k { assert!(m[i] == data[i]); } else if i < n { assert!(m[i] == s0[i]); }
    let v = &m[..k];
    assert!(v.len() == k);
    let bits = bitvec::slice::BitSlice::<u8>::from_slice(&data[..k]);
    assert!(bits.len() == 8 * k);
}
