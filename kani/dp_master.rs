// Kani harness helpers + contract harnesses for src/dp/master.rs (C14, C04.route).
use super::*;
#[allow(unused_imports)]
use crate::fdl::FdlApplication;
include!("/verif/kani/common.rs");

/// DpMasterState with symbolic bookkeeping; only `operating_state` matters to Peripheral::transmit_telegram
pub(crate) fn vk_master_state(operate: bool) -> DpMasterState {
    DpMasterState {
        operating_state: if operate { OperatingState::Operate } else { OperatingState::Clear },
        last_global_control: None,
        cycle_state: CycleState::DataExchange(0),
        last_events: Default::default(),
    }
}

// ------------------------------------------------------------------------------------------------
// C14: DP cycle loop.  Peripheral::transmit_telegram / receive_reply are replaced by contract stubs (their own
// contracts are the periph group); the stub logs which slot was asked, in which order.
#[cfg(not(verif_thorough))]
const SLOTS: usize = 2;
#[cfg(verif_thorough)]
const SLOTS: usize = 3;

static mut VK_ASKED: [u8; 8] = [0xff; 8];
static mut VK_NASKED: usize = 0;
static mut VK_OK_AT: u8 = 0xff;       // slot (address) whose stub returned Ok
static mut VK_EVENTS: u8 = 0;         // number of Err(.., Some(event)) returned
static mut VK_RX_AT: u8 = 0xff;

fn vk_stub_periph_tx<'a, 'b>(
    this: &mut Peripheral<'a>,
    _now: crate::time::Instant,
    _dp: &crate::dp::DpMasterState,
    _fdl: &crate::fdl::FdlActiveStation,
    tx: crate::fdl::TelegramTx<'b>,
    _hp: crate::fdl::HighPrioOnly,
) -> Result<crate::fdl::TelegramTxResponse, (crate::fdl::TelegramTx<'b>, Option<crate::dp::PeripheralEvent>)>
where
    'a: 'a,
{
    unsafe {
        if VK_NASKED < 8 { VK_ASKED[VK_NASKED] = this.address(); }
        VK_NASKED += 1;
    }
    if kani::any() {
        unsafe { VK_OK_AT = this.address(); }
        Ok(crate::fdl::TelegramTxResponse::new(kani::any(), Some(this.address())))
    } else {
        // contract of Peripheral::transmit_telegram: the only event it raises is Offline
        let ev = if kani::any() { unsafe { VK_EVENTS += 1; } Some(crate::dp::PeripheralEvent::Offline) } else { None };
        Err((tx, ev))
    }
}

fn vk_stub_periph_rx<'a>(
    this: &mut Peripheral<'a>,
    _now: crate::time::Instant,
    _dp: &crate::dp::DpMasterState,
    _fdl: &crate::fdl::FdlActiveStation,
    _telegram: crate::fdl::Telegram,
) -> Option<crate::dp::PeripheralEvent>
where
    'a: 'a,
{
    unsafe { VK_RX_AT = this.address(); }
    if kani::any() { Some(crate::dp::PeripheralEvent::DataExchanged) } else { None }
}

/// DpMaster with SLOTS storage slots, symbolic occupancy; the peripheral in slot i has address i
fn any_master<'a>(occ: [bool; SLOTS]) -> DpMaster<'a> {
    let storage: [crate::dp::PeripheralStorage<'a>; SLOTS] = Default::default();
    let mut m = DpMaster::new(storage);
    let mut i = 0;
    while i < SLOTS {
        if occ[i] {
            let mut p = Peripheral::default();
            crate::dp::peripheral::__verif_kani::vk_set_address(&mut p, i as u8);
            m.peripherals.vk_put(i, p);
        }
        i += 1;
    }
    m.state.operating_state = OperatingState::Operate;
    m
}

/// C14.loop / C05.dp: the turn of the DP master always ends (at most SLOTS+1 loop iterations), asks occupied slots
/// in slot order starting at the cycle index, stops at the first one that transmits, reports cycle_completed exactly
/// when the scan passed the last occupied slot, never trips an assertion (also when several peripherals raise an event).
#[kani::proof]
#[kani::unwind(6)]
#[kani::stub(Peripheral::transmit_telegram, vk_stub_periph_tx)]
fn c14_transmit_cycle() {
    let fdl = vk_any_fdl();
    let occ: [bool; SLOTS] = kani::any();
    let mut m = any_master(occ);
    let start: u8 = kani::any();
    kani::assume((start as usize) < SLOTS);
    // cycle index points at an occupied slot (invariant: set by increment_cycle_state / initial 0), or the set is empty
    kani::assume(occ[start as usize] || (start == 0));
    m.state.cycle_state = CycleState::DataExchange(start);
    let now = vk_any_instant();
    m.state.last_global_control = Some(now);
    let mut buf = [0u8; 256];
    let r = m.transmit_telegram(now, &fdl, crate::fdl::TelegramTx::new(&mut buf), vk_any_hp());
    let (asked, n, ok_at, nev) = unsafe { (VK_ASKED, VK_NASKED, VK_OK_AT, VK_EVENTS) };
    // slots asked: strictly increasing, all occupied, all >= start, none skipped
    let mut expect = start as usize;
    let mut k = 0;
    while k < n && k < 8 {
        while expect < SLOTS && !occ[expect] { expect += 1; }
        assert!(expect < SLOTS && asked[k] as usize == expect);
        expect += 1;
        k += 1;
    }
    let ev = m.take_last_events();
    kani::cover!(r.is_some());
    kani::cover!(r.is_none() && n == 2);
    match r {
        Some(_) => {
            assert!(n >= 1 && ok_at == asked[n - 1]);
            // the cycle index designates the peripheral that transmitted (first occupied slot at or after it)
            match m.state.cycle_state {
                CycleState::DataExchange(c) => {
                    let mut f = c as usize;
                    while f < SLOTS && !occ[f] { f += 1; }
                    assert!(f == ok_at as usize);
                }
                _ => assert!(false),
            }
            assert!(!ev.cycle_completed);
        }
        None => {
            assert!(ok_at == 0xff);
            // either every remaining occupied slot declined (cycle complete), or the turn ended early after an event
            let mut rest = false;
            let mut j = expect;
            while j < SLOTS { if occ[j] { rest = true; } j += 1; }
            if !rest {
                assert!(ev.cycle_completed);
                assert!(m.state.cycle_state == CycleState::DataExchange(0));
            } else {
                assert!(!ev.cycle_completed && nev >= 1);
                // the turn ended early to deliver the event: the cycle position is kept, the next turn continues
                // with the next occupied slot that has not been asked yet
                let mut nxt = expect;
                while nxt < SLOTS && !occ[nxt] { nxt += 1; }
                match m.state.cycle_state {
                    CycleState::DataExchange(c) => {
                        let mut f = c as usize;
                        while f < SLOTS && !occ[f] { f += 1; }
                        assert!(f == nxt);
                    }
                    _ => assert!(false),
                }
            }
        }
    }
    // event accounting: at most one event can be reported per callback, and none is lost
    assert!(nev <= 1 || r.is_none());
    if nev == 0 { assert!(ev.peripheral.is_none()); } else { assert!(matches!(ev.peripheral, Some((_, crate::dp::PeripheralEvent::Offline)))); }
    assert!(nev <= 1);
    assert!(m.take_last_events() == DpEvents::default());
}

/// C04.route / C14: a reply is handed to the peripheral whose request is outstanding (cycle index), then the cycle advances
#[kani::proof]
#[kani::unwind(6)]
#[kani::stub(Peripheral::receive_reply, vk_stub_periph_rx)]
fn c14_receive_reply_route() {
    let fdl = vk_any_fdl();
    let occ: [bool; SLOTS] = kani::any();
    let mut m = any_master(occ);
    let idx: u8 = kani::any();
    kani::assume((idx as usize) < SLOTS && occ[idx as usize]);
    m.state.cycle_state = CycleState::DataExchange(idx);
    let pdu = [0u8; 0];
    let t = crate::fdl::Telegram::ShortConfirmation(crate::fdl::ShortConfirmation);
    let _ = &pdu;
    m.receive_reply(vk_any_instant(), &fdl, idx, t);
    assert!(unsafe { VK_RX_AT } == idx);
    let mut next = None;
    let mut j = idx as usize + 1;
    while j < SLOTS { if occ[j] && next.is_none() { next = Some(j as u8); } j += 1; }
    let ev = m.take_last_events();
    match next {
        Some(nx) => { assert!(m.state.cycle_state == CycleState::DataExchange(nx) && !ev.cycle_completed); }
        None => { assert!(m.state.cycle_state == CycleState::CycleCompleted && ev.cycle_completed); }
    }
    if let Some((h, _)) = ev.peripheral { assert!(h.address() == idx); }
}

/// C14: after CycleCompleted the next call reports nothing, resets to slot 0 and sends nothing
#[kani::proof]
#[kani::unwind(6)]
#[kani::stub(Peripheral::transmit_telegram, vk_stub_periph_tx)]
fn c14_transmit_after_completed() {
    let fdl = vk_any_fdl();
    let occ: [bool; SLOTS] = kani::any();
    let mut m = any_master(occ);
    m.state.cycle_state = CycleState::CycleCompleted;
    let now = vk_any_instant();
    m.state.last_global_control = Some(now);
    let mut buf = [0u8; 256];
    let r = m.transmit_telegram(now, &fdl, crate::fdl::TelegramTx::new(&mut buf), vk_any_hp());
    assert!(r.is_none() && unsafe { VK_NASKED } == 0);
    assert!(m.state.cycle_state == CycleState::DataExchange(0));
    assert!(m.take_last_events() == DpEvents::default());
}

/// C14.api-frame: entering the Operate state (legal at any time, also while a cycle is under way or a request is
/// outstanding) asks for a new Global_Control and changes nothing else: the cycle position - the only record of which
/// peripheral the outstanding request went to and who already had its turn - and the collected events stay as they are
#[kani::proof]
#[kani::unwind(6)]
fn c14_enter_operate_frame() {
    let occ: [bool; SLOTS] = kani::any();
    let mut m = any_master(occ);
    let c: u8 = kani::any();
    kani::assume((c as usize) < SLOTS);
    let cs = if kani::any() { CycleState::DataExchange(c) } else { CycleState::CycleCompleted };
    m.state.cycle_state = cs;
    m.state.operating_state = match kani::any::<u8>() % 3 { 0 => OperatingState::Stop, 1 => OperatingState::Clear, _ => OperatingState::Operate };
    m.state.last_global_control = if kani::any() { Some(vk_any_instant()) } else { None };
    let cc: bool = kani::any();
    m.state.last_events = DpEvents { cycle_completed: cc, ..Default::default() };
    m.enter_operate();
    assert!(m.state.cycle_state == cs);
    assert!(m.state.operating_state == OperatingState::Operate && m.state.last_global_control.is_none());
    assert!(m.state.last_events == DpEvents { cycle_completed: cc, ..Default::default() });
}
