// Kani harness helpers + contract harnesses for src/dp/master.rs (C14, C04.route).
use super::*;
#[allow(unused_imports)]
use crate::fdl::FdlApplication;
include!("/verif/kani/common.rs");

/// DpMasterState with symbolic bookkeeping; only `operating_state` matters to Peripheral::transmit_telegram
pub(crate) fn vk_master_state(operate: bool) -> DpMasterState {
    DpMasterState {
        operating_state: if operate { OperatingState::Operate } else { OperatingState::Clear },
        last_global_control: None,
        cycle_state: CycleState::DataExchange(0),
        last_events: Default::default(),
    }
}
