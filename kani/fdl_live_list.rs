// Kani contract harnesses for src/fdl/live_list.rs (C18.step).  Attached as a child module of the
// scratch copy; loop-free over full symbolic domains => complete proofs.
use super::*;
use crate::fdl::FdlApplication;
include!("/verif/kani/common.rs");

fn any_live_list() -> LiveList {
    let mut l = LiveList::new();
    let raw: [usize; 2] = kani::any();
    l.stations = bitvec::array::BitArray::new(raw);
    l.cursor = kani::any();
    kani::assume(l.cursor <= 125);
    l.current_address_done = kani::any();
    l.pending_event = if kani::any() { None } else { Some(StationEvent::Lost(kani::any())) };
    l
}

/// C18.step.tx: probes only addresses 0..=125; one status request to `cursor` unless the address is done,
/// then the cursor advances cyclically and the turn ends; the station set is not touched.
#[kani::proof]
fn c18_ll_transmit() {
    let fdl = vk_any_fdl();
    let ts = fdl.parameters().address;
    let mut l = any_live_list();
    let (cursor0, done0, st0) = (l.cursor, l.current_address_done, l.stations.data);
    let ev0 = l.pending_event.clone();
    let mut buf = [0u8; 256];
    let hp = if kani::any() { crate::fdl::HighPrioOnly::Yes } else { crate::fdl::HighPrioOnly::No };
    let r = l.transmit_telegram(vk_any_instant(), &fdl, crate::fdl::TelegramTx::new(&mut buf), hp);
    assert!(l.cursor <= 125);
    assert!(l.stations.data == st0);
    // C18.events: an event that has not been taken yet survives the next request (a time-out and the following
    // transmit happen in the same poll, before the user can take the event) - also across the wrap-around
    assert!(l.pending_event == ev0);
    if done0 {
        kani::cover!(cursor0 == 125);
        assert!(r.is_none());
        assert!(!l.current_address_done);
        assert!(l.cursor == if cursor0 < 125 { cursor0 + 1 } else { 0 });
    } else {
        let r = r.unwrap();
        assert!(l.cursor == cursor0 && !l.current_address_done);
        assert!(r.bytes_sent() == 6 && r.expects_reply() == Some(cursor0));
        // FDL status request SD1 frame to the cursor address, from this station
        assert!(buf[0] == 0x10 && buf[1] == cursor0 && buf[2] == ts && buf[3] == 0x49);
        assert!(buf[4] == cursor0.wrapping_add(ts).wrapping_add(0x49) && buf[5] == 0x16);
    }
}

fn any_reply<'a>(pdu: &'a [u8]) -> crate::fdl::Telegram<'a> {
    let k: u8 = kani::any();
    match k % 3 {
        0 => crate::fdl::Telegram::ShortConfirmation(crate::fdl::ShortConfirmation),
        1 => crate::fdl::Telegram::Token(crate::fdl::TokenTelegram::new(kani::any(), kani::any())),
        _ => crate::fdl::Telegram::Data(crate::fdl::DataTelegram {
            h: crate::fdl::DataTelegramHeader { da: kani::any(), sa: kani::any(), dsap: kani::any(), ssap: kani::any(), fc: vk_any_fc() },
            pdu,
        }),
    }
}

/// C18.step.reply: stations' = stations + {addr}, every other bit unchanged; Discovered iff the address was
/// unknown and the reply is a response telegram (then with its state); address marked done.
#[kani::proof]
fn c18_ll_receive_reply() {
    let fdl = vk_any_fdl();
    let mut l = any_live_list();
    let addr: u8 = kani::any();
    kani::assume(addr <= 125);
    let st0 = l.stations.clone();
    let cursor0 = l.cursor;
    let pdu = [0u8; 0];
    let t = any_reply(&pdu);
    let resp_state = match &t { crate::fdl::Telegram::Data(d) => match d.h.fc { crate::fdl::FunctionCode::Response { state, .. } => Some(state), _ => None }, _ => None };
    l.receive_reply(vk_any_instant(), &fdl, addr, t);
    let i: usize = kani::any();
    kani::assume(i < 128);
    assert!(l.stations[i] == (st0[i] || i == usize::from(addr)));
    assert!(l.current_address_done && l.cursor == cursor0);
    let was_known = st0[usize::from(addr)];
    kani::cover!(!was_known && resp_state.is_some());
    match (was_known, resp_state) {
        (false, Some(state)) => assert!(l.pending_event == Some(StationEvent::Discovered(StationDescription { address: addr, state }))),
        _ => assert!(l.pending_event.is_none()),
    }
}

/// C18.step.timeout: stations' = stations - {addr}, every other bit unchanged; Lost(addr) iff it was known.
#[kani::proof]
fn c18_ll_handle_timeout() {
    let fdl = vk_any_fdl();
    let mut l = any_live_list();
    let addr: u8 = kani::any();
    kani::assume(addr <= 125);
    let st0 = l.stations.clone();
    let ev0 = l.pending_event.clone();
    let cursor0 = l.cursor;
    l.handle_timeout(vk_any_instant(), &fdl, addr);
    let i: usize = kani::any();
    kani::assume(i < 128);
    assert!(l.stations[i] == (st0[i] && i != usize::from(addr)));
    assert!(l.current_address_done && l.cursor == cursor0);
    kani::cover!(st0[usize::from(addr)]);
    if st0[usize::from(addr)] {
        assert!(l.pending_event == Some(StationEvent::Lost(addr)));
    } else {
        assert!(l.pending_event == ev0);
    }
}

/// take_last_event returns the pending event exactly once
#[kani::proof]
fn c18_ll_take_event() {
    let mut l = any_live_list();
    let ev0 = l.pending_event.clone();
    assert!(l.take_last_event() == ev0);
    assert!(l.take_last_event().is_none());
}
