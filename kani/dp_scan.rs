// Kani contract harnesses for src/dp/scan.rs (C18.step for the DP scanner, C17.hdr for its header decode).
use super::*;
use crate::fdl::FdlApplication;
include!("/verif/kani/common.rs");

fn any_scanner() -> DpScanner {
    let mut l = DpScanner::new();
    let raw: [usize; 2] = kani::any();
    l.stations = bitvec::array::BitArray::new(raw);
    l.cursor = kani::any();
    kani::assume(l.cursor <= 125);
    l.current_address_done = kani::any();
    l.pending_event = if kani::any() { None } else { Some(DpScanEvent::PeripheralLost(kani::any())) };
    l
}

#[kani::proof]
fn c18_sc_transmit() {
    let fdl = vk_any_fdl();
    let ts = fdl.parameters().address;
    let mut l = any_scanner();
    let (cursor0, done0, st0) = (l.cursor, l.current_address_done, l.stations.data);
    let ev0 = l.pending_event.clone();
    let mut buf = [0u8; 256];
    let hp = if kani::any() { crate::fdl::HighPrioOnly::Yes } else { crate::fdl::HighPrioOnly::No };
    let r = l.transmit_telegram(vk_any_instant(), &fdl, crate::fdl::TelegramTx::new(&mut buf), hp);
    assert!(l.cursor <= 125);
    assert!(l.stations.data == st0);
    // C18.events: an event that has not been taken yet survives the next request (a time-out and the following
    // transmit happen in the same poll, before the user can take the event) - also across the wrap-around
    assert!(l.pending_event == ev0);
    if done0 {
        kani::cover!(cursor0 == 125);
        assert!(r.is_none() && !l.current_address_done);
        assert!(l.cursor == if cursor0 < 125 { cursor0 + 1 } else { 0 });
    } else {
        let r = r.unwrap();
        assert!(l.cursor == cursor0 && !l.current_address_done);
        // Slave_Diag request: SD2, LE=5, DA|0x80, SA|0x80, FC = SRD low with FCV=0/FCB=1 (0x6c), DSAP 60, SSAP 62
        assert!(r.bytes_sent() == 11 && r.expects_reply() == Some(cursor0));
        assert!(buf[0] == 0x68 && buf[1] == 5 && buf[2] == 5 && buf[3] == 0x68);
        assert!(buf[4] == (cursor0 | 0x80) && buf[5] == (ts | 0x80) && buf[6] == 0x6c && buf[7] == 60 && buf[8] == 62);
        assert!(buf[9] == (cursor0 | 0x80).wrapping_add(ts | 0x80).wrapping_add(0x6c).wrapping_add(60).wrapping_add(62) && buf[10] == 0x16);
    }
}

const PDU_MAX: usize = 244;

fn any_reply<'a>(pdu: &'a [u8]) -> crate::fdl::Telegram<'a> {
    let k: u8 = kani::any();
    match k % 3 {
        0 => crate::fdl::Telegram::ShortConfirmation(crate::fdl::ShortConfirmation),
        1 => crate::fdl::Telegram::Token(crate::fdl::TokenTelegram::new(kani::any(), kani::any())),
        _ => crate::fdl::Telegram::Data(crate::fdl::DataTelegram {
            h: crate::fdl::DataTelegramHeader { da: kani::any(), sa: kani::any(), dsap: kani::any(), ssap: kani::any(), fc: vk_any_fc() },
            pdu,
        }),
    }
}

/// what the statement says a diagnostics reply decodes to: (flags without the always-one bit, ident, master)
fn ref_diag(t: &crate::fdl::Telegram) -> Option<(u16, u16, Option<u8>)> {
    if let crate::fdl::Telegram::Data(d) = t {
        if d.h.dsap == Some(62) && d.h.ssap == Some(60) && d.pdu.len() >= 6 {
            let flags = (u16::from(d.pdu[0]) | (u16::from(d.pdu[1]) << 8)) & !0x0400;
            let ident = (u16::from(d.pdu[4]) << 8) | u16::from(d.pdu[5]);
            return Some((flags, ident, if d.pdu[3] == 255 { None } else { Some(d.pdu[3]) }));
        }
    }
    None
}

/// C17.hdr (scanner) + C18.step.reply: Found/Requery with the decoded ident iff the reply is a well-formed
/// diagnostics response; the station bit is set only then; all other bits unchanged.
#[kani::proof]
#[kani::unwind(10)]
fn c18_sc_receive_reply() {
    let fdl = vk_any_fdl();
    let mut l = any_scanner();
    let addr: u8 = kani::any();
    kani::assume(addr <= 125);
    let st0 = l.stations.clone();
    let cursor0 = l.cursor;
    let store: [u8; PDU_MAX] = kani::any();
    let n: usize = kani::any();
    kani::assume(n <= PDU_MAX);
    let t = any_reply(&store[..n]);
    let want = ref_diag(&t);
    l.receive_reply(vk_any_instant(), &fdl, addr, t);
    let i: usize = kani::any();
    kani::assume(i < 128);
    let was_known = st0[usize::from(addr)];
    assert!(l.stations[i] == (st0[i] || (i == usize::from(addr) && want.is_some())));
    assert!(l.current_address_done && l.cursor == cursor0);
    kani::cover!(want.is_some() && !was_known);
    match want {
        Some((_flags, ident, master_address)) => {
            let desc = DpPeripheralDescription { address: addr, ident, master_address };
            if was_known { assert!(l.pending_event == Some(DpScanEvent::PeripheralRequery(desc))); }
            else { assert!(l.pending_event == Some(DpScanEvent::PeripheralFound(desc))); }
        }
        None => assert!(l.pending_event.is_none()),
    }
}

/// C17.hdr (scanner): flags / ident / master address of parse_diag_response equal the reply bytes
#[kani::proof]
#[kani::unwind(10)]
fn c17_sc_parse_diag() {
    let l = any_scanner();
    let store: [u8; PDU_MAX] = kani::any();
    let n: usize = kani::any();
    kani::assume(n <= PDU_MAX);
    let t = any_reply(&store[..n]);
    let want = ref_diag(&t);
    let got = l.parse_diag_response(t, kani::any());
    kani::cover!(want.is_some());
    match (got, want) {
        (Some(d), Some((flags, ident, master))) => assert!(d.flags.bits() == flags && d.ident_number == ident && d.master_address == master),
        (None, None) => (),
        _ => assert!(false),
    }
}

#[kani::proof]
fn c18_sc_handle_timeout() {
    let fdl = vk_any_fdl();
    let mut l = any_scanner();
    let addr: u8 = kani::any();
    kani::assume(addr <= 125);
    let st0 = l.stations.clone();
    let ev0 = l.pending_event.clone();
    let cursor0 = l.cursor;
    l.handle_timeout(vk_any_instant(), &fdl, addr);
    let i: usize = kani::any();
    kani::assume(i < 128);
    assert!(l.stations[i] == (st0[i] && i != usize::from(addr)));
    assert!(l.current_address_done && l.cursor == cursor0);
    kani::cover!(st0[usize::from(addr)]);
    if st0[usize::from(addr)] { assert!(l.pending_event == Some(DpScanEvent::PeripheralLost(addr))); } else { assert!(l.pending_event == ev0); }
}

#[kani::proof]
fn c18_sc_take_event() {
    let mut l = any_scanner();
    let ev0 = l.pending_event.clone();
    assert!(l.take_last_event() == ev0);
    assert!(l.take_last_event().is_none());
}
