// Kani contract harness for src/fdl/parameters.rs (C03.wd).  The loop `for f1 in 1..256` has a constant bound,
// so unwinding 257 times with unwinding assertions on is complete.
use super::*;

/// C03.wd: for 10 ms <= d <= 650 s the factors exist, are in 1..=255, cover the requested time
/// (f1*f2 >= floor(d / 10 ms)), f2 is minimal for f1 and f1 is the smallest factor for which an f2 <= 255 exists.
#[kani::proof]
#[kani::unwind(258)]
fn c03_wd_factors() {
    let us: u64 = kani::any();
    kani::assume(us >= 10_000 && us <= 650_000_000);
    let d = crate::time::Duration::from_micros(us);
    let t = (us / 1000 / 10) as u32;
    match watchdog_factors(d) {
        Some(Ok((f1, f2))) => {
            let (f1, f2) = (u32::from(f1), u32::from(f2));
            assert!(f1 >= 1 && f2 >= 1);
            assert!(f1 * f2 >= t);
            assert!((f2 - 1) * f1 < t);
            assert!(f1 == 1 || t > 255 * (f1 - 1));
        }
        _ => assert!(false),
    }
}

/// Parameters::watchdog_timeout returns f1*f2*10 ms
#[kani::proof]
fn c03_wd_timeout() {
    let mut p = Parameters::default();
    let (f1, f2): (u8, u8) = (kani::any(), kani::any());
    p.watchdog_factors = if kani::any() { Some((f1, f2)) } else { None };
    match (p.watchdog_timeout(), p.watchdog_factors) {
        (Some(d), Some((a, b))) => assert!(d.total_micros() == u64::from(a) * u64::from(b) * 10_000),
        (None, None) => (),
        _ => assert!(false),
    }
}
