// harness helper for src/dp/peripheral_set.rs: place a peripheral into a given storage slot
use super::*;
impl<'a> PeripheralSet<'a> {
    pub(crate) fn vk_put(&mut self, i: usize, p: Peripheral<'a>) {
        self.peripherals[i].inner = Some(p);
    }
}
