// Kani step contracts for FdlActiveStation::poll_multi (C01, C05, C11, C12, C13, C15): one harness per FDL state.
// Start state: arbitrary station satisfying FdlInv.  Environment: a contract-level PHY (delivers up to RX_MAX
// decoded telegrams per poll as the receive helpers' contract C16 allows, logs transmissions) and up to 2
// nondeterministic applications that check the application-facing obligations.  Callees under a Verus contract
// are replaced by contract stubs: TelegramTx::send_data_telegram (C09.ser), TokenRing mutators (C02).
use super::*;
include!("/verif/kani/common.rs");

const RX_MAX: usize = 3;
/// telegrams delivered in one poll: 2 in general; 3 while supervising a token pass (a burst that takes the station to
/// ListenToken and then offers it the token needs three)
fn rx_limit(kind: u8) -> usize { if kind == 6 { 3 } else { 2 } }

// ------------------------------------------------------------------------------------------------ PHY
struct NondetPhy {
    transmitting: bool,
    pending: usize,        // bytes pending when the poll starts
    pending_after: usize,  // bytes still pending once the receive helpers ran (they consume telegrams and drop garbage, C16)
    rx_called: bool,
    n_rx: usize,
    delivered: usize,
    trailing: bool,       // undecoded bytes remain behind the last complete telegram
    tx_count: u8,
    txbuf: [u8; 256],
    tx_len: usize,
    rx_was_token_to: [u8; RX_MAX],   // ghost: what was delivered (for postconditions)
    rx_kind: [u8; RX_MAX],
    rx_sa: [u8; RX_MAX],
    rx_da: [u8; RX_MAX],
    rx_fc_resp: [bool; RX_MAX],
    rx_status_ok_master: [bool; RX_MAX],
    rx_is_status_req: [bool; RX_MAX],
}

fn any_phy() -> NondetPhy {
    let p = NondetPhy { transmitting: kani::any(), pending: kani::any(), pending_after: kani::any(), rx_called: false, n_rx: kani::any(), delivered: 0, trailing: kani::any(),
        tx_count: 0, txbuf: [0; 256], tx_len: 0, rx_was_token_to: [0xff; RX_MAX], rx_kind: [0xff; RX_MAX], rx_sa: [0; RX_MAX], rx_da: [0; RX_MAX],
        rx_fc_resp: [false; RX_MAX], rx_status_ok_master: [false; RX_MAX], rx_is_status_req: [false; RX_MAX] };
    kani::assume(p.n_rx <= RX_MAX && p.pending < 100_000 && p.pending_after <= p.pending);
    // a complete telegram that is handed out has been consumed
    kani::assume(p.n_rx == 0 || p.pending_after < p.pending);
    // a complete telegram is at least one byte; nothing can be received while we transmit
    kani::assume(p.n_rx == 0 || p.pending > 0);
    kani::assume(!p.trailing || p.pending > 0);
    kani::assume(!p.transmitting || (p.n_rx == 0 && !p.trailing));
    p
}

impl NondetPhy {
    fn pending_now(&self) -> usize { if self.rx_called { self.pending_after } else { self.pending } }
    /// next decoded telegram as the decoder contract (C10.spec) allows: SC | token with any address bytes | data with 7-bit addresses
    fn next_telegram<'a>(&mut self, pdu: &'a [u8]) -> crate::fdl::Telegram<'a> {
        let i = self.delivered;
        self.delivered += 1;
        let k: u8 = kani::any();
        match k % 3 {
            0 => { self.rx_kind[i] = 0; crate::fdl::Telegram::ShortConfirmation(crate::fdl::ShortConfirmation) }
            1 => {
                let (da, sa): (u8, u8) = (kani::any(), kani::any());
                self.rx_kind[i] = 1; self.rx_sa[i] = sa; self.rx_da[i] = da;
                crate::fdl::Telegram::Token(crate::fdl::TokenTelegram::new(da, sa))
            }
            _ => {
                let (da, sa): (u8, u8) = (kani::any(), kani::any());
                kani::assume(da <= 127 && sa <= 127);
                let fc = vk_any_fc();
                self.rx_kind[i] = 2; self.rx_sa[i] = sa; self.rx_da[i] = da;
                if let crate::fdl::FunctionCode::Response { state, status } = fc {
                    self.rx_fc_resp[i] = true;
                    self.rx_status_ok_master[i] = status == crate::fdl::ResponseStatus::Ok
                        && matches!(state, crate::fdl::ResponseState::MasterWithoutToken | crate::fdl::ResponseState::MasterInRing);
                }
                self.rx_is_status_req[i] = matches!(fc, crate::fdl::FunctionCode::Request { req: crate::fdl::RequestType::FdlStatus, .. });
                crate::fdl::Telegram::Data(crate::fdl::DataTelegram { h: crate::fdl::DataTelegramHeader { da, sa, dsap: kani::any(), ssap: kani::any(), fc }, pdu })
            }
        }
    }
}

impl crate::phy::ProfibusPhy for NondetPhy {
    fn poll_transmission(&mut self, _now: crate::time::Instant) -> bool { self.transmitting }
    fn transmit_data<F, R>(&mut self, _now: crate::time::Instant, f: F) -> R where F: FnOnce(&mut [u8]) -> (usize, R) {
        assert!(!self.transmitting);
        let (n, r) = f(&mut self.txbuf);
        if n > 0 { self.tx_count += 1; self.tx_len = n; self.transmitting = true; }
        r
    }
    fn transmit_telegram<F>(&mut self, _now: crate::time::Instant, f: F) -> Option<crate::fdl::TelegramTxResponse>
    where F: FnOnce(crate::fdl::TelegramTx) -> Option<crate::fdl::TelegramTxResponse> {
        // contract of the generic helper (C16.tx): the closure gets the transmit buffer once; bytes_sent bytes go out
        assert!(!self.transmitting);
        let r = f(crate::fdl::TelegramTx::new(&mut self.txbuf));
        if let Some(resp) = &r { self.tx_count += 1; self.tx_len = resp.bytes_sent(); self.transmitting = true; }
        r
    }
    fn receive_data<F, R>(&mut self, _now: crate::time::Instant, f: F) -> R where F: FnOnce(&[u8]) -> (usize, R) {
        assert!(!self.transmitting);
        f(&[]).1
    }
    fn poll_pending_received_bytes(&mut self, _now: crate::time::Instant) -> usize { assert!(!self.transmitting); self.pending_now() }
    fn receive_telegram<F, R>(&mut self, _now: crate::time::Instant, f: F) -> Option<R> where F: FnOnce(crate::fdl::Telegram) -> R {
        assert!(!self.transmitting);
        self.rx_called = true;
        if self.delivered < self.n_rx { let pdu = [0u8; 0]; let t = self.next_telegram(&pdu); Some(f(t)) } else { None }
    }
    fn receive_all_telegrams<F, R>(&mut self, _now: crate::time::Instant, mut f: F) -> Option<R> where F: FnMut(crate::fdl::Telegram, bool) -> R {
        assert!(!self.transmitting);
        self.rx_called = true;
        let mut res = None;
        while self.delivered < self.n_rx {
            let is_last = self.delivered + 1 == self.n_rx && !self.trailing;
            let pdu = [0u8; 0];
            let t = self.next_telegram(&pdu);
            let r = f(t, is_last);
            res = if is_last { Some(r) } else { None };
        }
        res
    }
}

// ------------------------------------------------------------------------------------------------ applications
struct NondetApp { ts: u8, idx: usize, tx_calls: u8, rx_calls: u8, to_calls: u8, awaited: Option<u8>, asked_high_only: bool }
static mut VK_APP_ORDER: [u8; 8] = [0xff; 8];
static mut VK_APP_N: usize = 0;

impl crate::fdl::FdlApplication for NondetApp {
    fn transmit_telegram(&mut self, _now: crate::time::Instant, fdl: &FdlActiveStation, tx: crate::fdl::TelegramTx, hp: crate::fdl::HighPrioOnly) -> Option<crate::fdl::TelegramTxResponse> {
        // C15.ask: asked only while the station holds the token and no reply is outstanding
        assert!(matches!(fdl.state, State::UseToken { .. }));
        assert!(fdl.next_application == self.idx);
        self.tx_calls += 1;
        self.asked_high_only = hp == crate::fdl::HighPrioOnly::Yes;
        unsafe { if VK_APP_N < 8 { VK_APP_ORDER[VK_APP_N] = self.idx as u8; } VK_APP_N += 1; }
        if kani::any() { return None; }
        let da: u8 = kani::any();
        kani::assume(da <= 126);
        let req = match kani::any::<u8>() % 3 { 0 => crate::fdl::RequestType::SrdHigh, 1 => crate::fdl::RequestType::SdnLow, _ => crate::fdl::RequestType::FdlStatus };
        Some(tx.send_data_telegram(crate::fdl::DataTelegramHeader { da, sa: self.ts, dsap: None, ssap: None,
            fc: crate::fdl::FunctionCode::Request { fcb: crate::fdl::FrameCountBit::Inactive, req } }, 0, |_b| ()))
    }
    fn receive_reply(&mut self, _now: crate::time::Instant, fdl: &FdlActiveStation, addr: u8, telegram: crate::fdl::Telegram) {
        // C15.match / C04.admit: only the sender gets the reply, only admissible telegrams
        self.rx_calls += 1;
        assert!(fdl.next_application == self.idx);
        assert!(self.awaited == Some(addr));
        match telegram {
            crate::fdl::Telegram::ShortConfirmation(_) => (),
            crate::fdl::Telegram::Data(t) => assert!(t.h.sa == addr && t.h.da == self.ts && matches!(t.h.fc, crate::fdl::FunctionCode::Response { .. })),
            crate::fdl::Telegram::Token(_) => assert!(false),
        }
    }
    fn handle_timeout(&mut self, _now: crate::time::Instant, fdl: &FdlActiveStation, addr: u8) {
        self.to_calls += 1;
        assert!(fdl.next_application == self.idx);
        assert!(self.awaited == Some(addr));
    }
}

// ------------------------------------------------------------------------------------------------ station under FdlInv
fn any_attempt() -> PassTokenAttempt { match kani::any::<u8>() % 3 { 0 => PassTokenAttempt::First, 1 => PassTokenAttempt::Second, _ => PassTokenAttempt::Third } }
fn any_use_data(napps: usize) -> UseTokenData {
    let first_app = if kani::any() { None } else { let a: usize = kani::any(); kani::assume(a < napps.max(1)); Some(a) };
    UseTokenData { token_time: vk_any_instant(), first_app }
}

/// kind: 0 ListenToken 1 ActiveIdle 2 ClaimToken 3 UseToken 4 AwaitDataResponse 5 PassToken 6 CheckTokenPass 7 AwaitStatusResponse
fn any_station(kind: u8, napps: usize, now: crate::time::Instant) -> FdlActiveStation {
    let mut p = vk_any_params();
    p.slot_bits = kani::any();
    kani::assume(p.slot_bits >= 100 && p.slot_bits <= 4095);
    p.token_rotation_bits = kani::any();
    kani::assume(p.token_rotation_bits >= 256 && p.token_rotation_bits <= 16_777_960);
    let (ts, hsa) = (p.address, p.highest_station_address);
    let mut f = FdlActiveStation::new(p);
    f.connectivity_state = ConnectivityState::Online;
    let (ns, ps): (u8, u8) = (kani::any(), kani::any());
    kani::assume(ns < hsa && ps < hsa);
    // a station that is in the ring (ActiveIdle and every token state) has a valid LAS
    let las_state = if kind == 0 || kind == 2 { kani::any::<u8>() % 4 } else { 3 };
    f.token_ring = crate::fdl::__verif_kani_token_ring::vk_ring(ts, ns, ps, las_state);
    f.gap_state = if kani::any() {
        let r: u8 = kani::any(); kani::assume(r <= f.p.gap_wait_rotations + 1); GapState::Waiting { rotation_count: r }
    } else { let a: u8 = kani::any(); kani::assume(a < hsa); GapState::DoPoll { current_address: a } };
    f.last_bus_activity = if kani::any() { None } else {
        let l: i64 = kani::any(); kani::assume(l >= 0 && l <= now.total_micros() + (1 << 24)); Some(crate::time::Instant::from_micros(l)) };
    f.pending_bytes = kani::any();
    kani::assume(f.pending_bytes < 100_000);
    f.last_token_time = vk_any_instant();
    f.end_token_hold_time = vk_any_instant();
    f.next_application = kani::any();
    kani::assume(f.next_application < napps.max(1));
    let addr: u8 = kani::any();
    kani::assume(addr <= 126);
    let cc: u8 = kani::any();
    kani::assume(cc <= 1);
    let sr: Option<u8> = if kani::any() { None } else { let a: u8 = kani::any(); kani::assume(a <= 127); Some(a) };
    f.state = match kind {
        0 => State::ListenToken { status_request: sr, collision_count: cc },
        1 => State::ActiveIdle { status_request: sr, new_previous_station: if kani::any() { None } else { Some(kani::any()) }, collision_count: cc },
        2 => State::ClaimToken { step: match kani::any::<u8>() % 4 { 0 => ClaimTokenStep::FirstToken, 1 => { kani::assume(f.token_ring.ready_for_ring()); ClaimTokenStep::SecondToken }, 2 => { kani::assume(f.token_ring.ready_for_ring()); ClaimTokenStep::Scan },
                _ => { kani::assume(f.token_ring.ready_for_ring()); kani::assume(addr < hsa && addr != ts); f.gap_state = GapState::DoPoll { current_address: addr }; ClaimTokenStep::ScanAwaitResponse { address: addr } } } },
        3 => State::UseToken { data: any_use_data(napps), first_cycle_done: kani::any() },
        4 => {
            // AwaitDataResponse is entered from UseToken, after the hold-time deadline of this visit was computed
            let data = any_use_data(napps);
            f.last_token_time = data.token_time;
            State::AwaitDataResponse { address: addr, data }
        }
        5 => State::PassToken { do_gap: if kani::any() { DoGap::Yes } else { DoGap::No }, attempt: any_attempt() },
        6 => State::CheckTokenPass { attempt: any_attempt() },
        _ => { kani::assume(addr < hsa && addr != ts); f.gap_state = GapState::DoPoll { current_address: addr }; State::AwaitStatusResponse { address: addr } }
    };
    f
}

fn state_kind(s: &State) -> u8 {
    match s { State::Offline => 100, State::PassiveIdle => 101, State::ListenToken { .. } => 0, State::ActiveIdle { .. } => 1, State::ClaimToken { .. } => 2,
        State::UseToken { .. } => 3, State::AwaitDataResponse { .. } => 4, State::PassToken { .. } => 5, State::CheckTokenPass { .. } => 6, State::AwaitStatusResponse { .. } => 7 }
}

/// FdlInv: the shape invariants every poll re-establishes
fn fdl_inv(f: &FdlActiveStation, napps: usize) -> bool {
    let hsa = f.p.highest_station_address;
    let ts = f.p.address;
    (match f.gap_state { GapState::Waiting { rotation_count } => rotation_count <= f.p.gap_wait_rotations + 1, GapState::DoPoll { current_address } => current_address < hsa })
    && (match &f.state {
        State::ListenToken { collision_count, .. } => *collision_count <= 1,
        State::ActiveIdle { collision_count, .. } => *collision_count <= 1,
        State::AwaitStatusResponse { address } => f.gap_state == (GapState::DoPoll { current_address: *address }) && *address != ts,
        State::ClaimToken { step: ClaimTokenStep::ScanAwaitResponse { address } } => f.gap_state == (GapState::DoPoll { current_address: *address }) && *address != ts,
        State::Offline => f.connectivity_state == ConnectivityState::Offline,
        State::PassiveIdle => false,
        _ => true,
    })
    && f.next_application < napps.max(1)
    && (f.token_ring.ready_for_ring() || matches!(f.state, State::ListenToken { .. } | State::ClaimToken { step: ClaimTokenStep::FirstToken } | State::Offline))
    && (f.connectivity_state != ConnectivityState::Offline || matches!(f.state, State::Offline))
    && f.token_ring.next_station() <= 125 && f.token_ring.previous_station() <= 125
    && crate::fdl::__verif_kani_token_ring::vk_ring_ts(&f.token_ring) == ts
}

struct Obs { tx: u8, kind1: u8, apps_tx: u8, apps_rx: u8, apps_to: u8 }

/// one poll from an arbitrary FdlInv state of the given kind; generic obligations checked here, state-specific ones by the caller
fn step(kind: u8) -> (FdlActiveStation, FdlActiveStation, NondetPhy, crate::time::Instant, [NondetApp; 2], usize) {
    let now = vk_any_instant();
    let napps: usize = kani::any();
    kani::assume(napps <= 2);
    let f0 = any_station(kind, napps, now);
    kani::assume(f0.token_ring.next_station() <= 125 && f0.token_ring.previous_station() <= 125);
    let mut f = any_station_clone(&f0);
    let ts = f.p.address;
    let mut phy = any_phy();
    kani::assume(phy.n_rx <= rx_limit(kind));
    let awaited = match &f.state { State::AwaitDataResponse { address, .. } => Some(*address), _ => None };
    let mut a0 = NondetApp { ts, idx: 0, tx_calls: 0, rx_calls: 0, to_calls: 0, awaited, asked_high_only: false };
    let mut a1 = NondetApp { ts, idx: 1, tx_calls: 0, rx_calls: 0, to_calls: 0, awaited, asked_high_only: false };
    // a reply can only be outstanding if there is an application that sent the request
    kani::assume(kind != 4 || napps >= 1);
    {
        let mut two: [&mut dyn crate::fdl::FdlApplication; 2] = [&mut a0, &mut a1];
        f.poll_multi(now, &mut phy, &mut two[..napps]);
    }
    // ---- generic obligations
    assert!(fdl_inv(&f, napps));                                           // C05.step: invariant re-established (no panic on the way)
    assert!(phy.tx_count <= 1);                                            // C01: at most one transmission per poll
    let lba_seen = match f0.last_bus_activity {
        None => now,
        Some(l) => if phy.pending > f0.pending_bytes && now > l { now } else { l },
    };
    let busy0 = (phy.transmitting && phy.tx_count == 0) || f0.last_bus_activity.map(|l| now <= l).unwrap_or(false);
    if busy0 {
        // C01.no-tx-while-busy
        assert!(phy.tx_count == 0 && f.state == f0.state && phy.delivered == 0);
    }
    // C01 bus-activity tracking: received telegrams reset the pending-byte counter (otherwise the first bytes of the
    // next telegram would not be noticed as bus activity); new pending bytes are accounted for exactly once
    if !busy0 {
        let accounted = if phy.pending > f0.pending_bytes { phy.pending } else { f0.pending_bytes };
        if phy.delivered >= 1 { assert!(f.pending_bytes == 0); }
        else if matches!(f.state, State::Offline) { }
        else if phy.tx_count == 1 { assert!(f.pending_bytes == accounted); }
        else {
            // C01.activity-inv: bytes the PHY dropped (garbage) are forgotten, so that the next byte on the bus is
            // noticed as activity: the accounted count never exceeds what is pending in the PHY when the poll ends
            assert!(f.pending_bytes <= phy.pending_now());
            assert!(f.pending_bytes == accounted.min(phy.pending_now()));
        }
        if phy.delivered >= 1 && phy.tx_count == 0 && !matches!(f.state, State::Offline) {
            // reception is bus activity "now"
            assert!(f.last_bus_activity == Some(match f0.last_bus_activity { Some(l) if l > now => l, _ => now }));
        }
    } else {
        assert!(f.pending_bytes == f0.pending_bytes);
    }
    if phy.tx_count == 1 {
        // C01.tx-after-pause: every transmission starts more than 33 bit times after the last observed bus activity
        assert!(!busy0);
        assert!(now > lba_seen + f0.p.bits_to_time(33));
        // C01: the end of the own transmission is predicted as 11 bit times per byte
        assert!(f.last_bus_activity == Some(now + f0.p.bits_to_time(11 * phy.tx_len as u32)));
    }
    (f0, f, phy, now, [a0, a1], napps)
}

fn any_station_clone(f: &FdlActiveStation) -> FdlActiveStation {
    FdlActiveStation { p: f.p.clone(), token_ring: f.token_ring.clone(), connectivity_state: f.connectivity_state, gap_state: f.gap_state,
        state: clone_state(&f.state), last_bus_activity: f.last_bus_activity, pending_bytes: f.pending_bytes, last_token_time: f.last_token_time,
        end_token_hold_time: f.end_token_hold_time, next_application: f.next_application }
}
fn clone_state(s: &State) -> State {
    match s {
        State::Offline => State::Offline, State::PassiveIdle => State::PassiveIdle,
        State::ListenToken { status_request, collision_count } => State::ListenToken { status_request: *status_request, collision_count: *collision_count },
        State::ActiveIdle { status_request, new_previous_station, collision_count } => State::ActiveIdle { status_request: *status_request, new_previous_station: *new_previous_station, collision_count: *collision_count },
        State::UseToken { data, first_cycle_done } => State::UseToken { data: *data, first_cycle_done: *first_cycle_done },
        State::ClaimToken { step } => State::ClaimToken { step: *step },
        State::AwaitDataResponse { address, data } => State::AwaitDataResponse { address: *address, data: *data },
        State::PassToken { do_gap, attempt } => State::PassToken { do_gap: *do_gap, attempt: *attempt },
        State::CheckTokenPass { attempt } => State::CheckTokenPass { attempt: *attempt },
        State::AwaitStatusResponse { address } => State::AwaitStatusResponse { address: *address },
    }
}

fn in_gap(a: u8, ts: u8, ns: u8, hsa: u8) -> bool { a < hsa && (if ns > ts { ts < a && a < ns } else if ns == ts { a != ts } else { a > ts || a < ns }) }
fn sent_token(phy: &NondetPhy) -> Option<(u8, u8)> { if phy.tx_count == 1 && phy.tx_len == 3 && phy.txbuf[0] == 0xDC { Some((phy.txbuf[1], phy.txbuf[2])) } else { None } }
fn sent_data(phy: &NondetPhy) -> Option<crate::fdl::DataTelegramHeader> {
    if phy.tx_count == 1 && sent_token(phy).is_none() { crate::fdl::__verif_kani_telegram::vk_last_tx().map(|t| t.h) } else { None }
}
fn slot_expired(f0: &FdlActiveStation, phy: &NondetPhy, now: crate::time::Instant) -> bool {
    let lba = match f0.last_bus_activity { None => now, Some(l) => if phy.pending > f0.pending_bytes && now > l { now } else { l } };
    now > lba + f0.p.slot_time()
}

macro_rules! step_harness {
    ($name:ident, $kind:expr, $body:expr) => {
        #[kani::proof]
        #[kani::unwind(6)]
        #[kani::stub(crate::fdl::TelegramTx::send_data_telegram, crate::fdl::__verif_kani_telegram::vk_stub_send_data_telegram)]
        #[kani::stub(crate::fdl::TokenRing::witness_token_pass, crate::fdl::__verif_kani_token_ring::vk_stub_witness)]
        #[kani::stub(crate::fdl::TokenRing::set_next_station, crate::fdl::__verif_kani_token_ring::vk_stub_set_next_station)]
        #[kani::stub(crate::fdl::TokenRing::remove_station, crate::fdl::__verif_kani_token_ring::vk_stub_remove_station)]
        fn $name() {
            let (f0, f, phy, now, apps, napps) = step($kind);
            let check: fn(&FdlActiveStation, &FdlActiveStation, &NondetPhy, crate::time::Instant, &[NondetApp; 2], usize) = $body;
            check(&f0, &f, &phy, now, &apps, napps);
        }
    };
}

fn removed() -> u8 { unsafe { crate::fdl::__verif_kani_token_ring::VK_REMOVED } }
fn setns() -> u8 { unsafe { crate::fdl::__verif_kani_token_ring::VK_SETNS } }

// ---- ListenToken: never holds a token from a received token; answers status requests truthfully; claims only on time-out (C11.listen, C12.status, C01.role)
step_harness!(fdl_step_listen_token, 0, |f0, f, phy, now, apps, _n| {
    let ts = f0.p.address;
    assert!(matches!(f.state, State::ListenToken { .. } | State::ActiveIdle { .. } | State::ClaimToken { .. } | State::Offline));
    assert!(apps[0].tx_calls + apps[1].tx_calls == 0 && removed() == 0);
    let lba = f0.last_bus_activity.map(|l| if phy.pending > f0.pending_bytes && now > l { now } else { l }).unwrap_or(now);
    let timed_out = (now - lba) >= f0.p.token_lost_timeout();
    if matches!(f.state, State::ClaimToken { .. }) { assert!(timed_out); }
    if let Some((da, sa)) = sent_token(phy) { assert!(timed_out && da == ts && sa == ts); }
    if let Some(h) = sent_data(phy) {
        // a status reply, only to the recorded requester, truthful about readiness
        let sr = match f0.state { State::ListenToken { status_request, .. } => status_request, _ => None };
        assert!(!timed_out && sr == Some(h.da) && h.sa == ts);
        let ready = f0.token_ring.ready_for_ring();
        match h.fc {
            crate::fdl::FunctionCode::Response { state, status } => {
                assert!(status == crate::fdl::ResponseStatus::Ok);
                if ready && h.da == f0.token_ring.previous_station() { assert!(state == crate::fdl::ResponseState::MasterWithoutToken); }
                else { assert!(state == crate::fdl::ResponseState::MasterNotReady); }
            }
            _ => assert!(false),
        }
        assert!(matches!(f.state, State::ActiveIdle { .. }) == ready);
    }
    if matches!(f.state, State::ActiveIdle { .. }) { assert!(sent_data(phy).is_some()); }
    // C12.status: a requester is recorded only for a status request addressed to us that is the LAST telegram of the
    // batch (nothing buffered behind it) - a request followed by other traffic is stale, its slot time is over
    if let (State::ListenToken { status_request: sr1, .. }, State::ListenToken { status_request: sr0, .. }) = (&f.state, &f0.state) {
        if sr1.is_some() && sr1 != sr0 {
            assert!(phy.delivered >= 1 && phy.delivered == phy.n_rx && !phy.trailing);
            let k = phy.delivered - 1;
            assert!(phy.rx_is_status_req[k] && phy.rx_da[k] == ts && Some(phy.rx_sa[k]) == *sr1);
        }
    }
    kani::cover!(sent_data(phy).is_some());
});

// ---- ActiveIdle (C11.accept at poll level, C12.status, C01.role)
step_harness!(fdl_step_active_idle, 1, |f0, f, phy, now, apps, _n| {
    let ts = f0.p.address;
    assert!(matches!(f.state, State::ListenToken { .. } | State::ActiveIdle { .. } | State::ClaimToken { .. } | State::UseToken { .. }));
    assert!(apps[0].tx_calls + apps[1].tx_calls == 0 && removed() == 0);
    let lba = f0.last_bus_activity.map(|l| if phy.pending > f0.pending_bytes && now > l { now } else { l }).unwrap_or(now);
    let timed_out = (now - lba) >= f0.p.token_lost_timeout();
    if matches!(f.state, State::ClaimToken { .. }) { assert!(timed_out); }
    if let Some((da, sa)) = sent_token(phy) { assert!(timed_out && da == ts && sa == ts); }
    if let Some(h) = sent_data(phy) {
        let sr = match f0.state { State::ActiveIdle { status_request, .. } => status_request, _ => None };
        assert!(!timed_out && sr == Some(h.da) && h.sa == ts);
        assert!(matches!(h.fc, crate::fdl::FunctionCode::Response { state: crate::fdl::ResponseState::MasterInRing, status: crate::fdl::ResponseStatus::Ok }));
    }
    // the token is taken only from a token telegram addressed to us that was the last telegram received
    if matches!(f.state, State::UseToken { .. }) {
        assert!(phy.delivered >= 1 && !phy.trailing);
        let i = phy.delivered - 1;
        assert!(phy.rx_kind[i] == 1 && phy.rx_da[i] == ts && phy.rx_sa[i] != ts && phy.tx_count == 0);
    }
    kani::cover!(matches!(f.state, State::UseToken { .. }));
});

// ---- ClaimToken: two tokens TS->TS, then the whole GAP, only own-GAP addresses are polled (C12.visit, C01.role, C05 / F2)
step_harness!(fdl_step_claim_token, 2, |f0, f, phy, _now, apps, _n| {
    let (ts, hsa) = (f0.p.address, f0.p.highest_station_address);
    assert!(apps[0].tx_calls + apps[1].tx_calls == 0 && removed() == 0);
    assert!(matches!(f.state, State::ClaimToken { .. } | State::PassToken { .. } | State::ActiveIdle { .. }));
    let step0 = match f0.state { State::ClaimToken { step } => step, _ => ClaimTokenStep::Scan };
    if let Some((da, sa)) = sent_token(phy) {
        assert!(da == ts && sa == ts && matches!(step0, ClaimTokenStep::FirstToken | ClaimTokenStep::SecondToken));
        assert!(f.token_ring.ready_for_ring());
        // C12.visit: the token is claimed with two tokens, and the GAP scan that follows starts right behind TS (whole GAP)
        assert!(f.state == (State::ClaimToken { step: if step0 == ClaimTokenStep::FirstToken { ClaimTokenStep::SecondToken } else { ClaimTokenStep::Scan } }));
        assert!(f.gap_state == (GapState::DoPoll { current_address: ts }));
    }
    if phy.tx_count == 0 && matches!(step0, ClaimTokenStep::FirstToken | ClaimTokenStep::SecondToken) { assert!(f.state == f0.state && f.gap_state == f0.gap_state); }
    if let Some(h) = sent_data(phy) {
        // GAP poll of the post-claim scan: FDL status request to an address of the own GAP, never to ourselves
        assert!(matches!(step0, ClaimTokenStep::Scan | ClaimTokenStep::ScanAwaitResponse { .. }));
        assert!(matches!(h.fc, crate::fdl::FunctionCode::Request { req: crate::fdl::RequestType::FdlStatus, .. }) && h.sa == ts);
        assert!(h.da != ts && in_gap(h.da, ts, f.token_ring.next_station(), hsa));
        assert!(f.state == (State::ClaimToken { step: ClaimTokenStep::ScanAwaitResponse { address: h.da } }));
    }
    if matches!(f.state, State::PassToken { .. }) { assert!(f.state == (State::PassToken { do_gap: DoGap::No, attempt: PassTokenAttempt::First }) && phy.tx_count == 0); }
    kani::cover!(sent_data(phy).is_some());
});

// ---- UseToken: hold-time rule, application round-robin (C13.rule, C13.deadline, C15.ask)
step_harness!(fdl_step_use_token, 3, |f0, f, phy, now, apps, napps| {
    assert!(removed() == 0 && sent_token(phy).is_none());
    assert!(matches!(f.state, State::UseToken { .. } | State::AwaitDataResponse { .. } | State::PassToken { .. }));
    let (data0, fcd0) = match f0.state { State::UseToken { data, first_cycle_done } => (data, first_cycle_done), _ => unreachable!() };
    let busy0 = (phy.transmitting && phy.tx_count == 0) || f0.last_bus_activity.map(|l| now <= l).unwrap_or(false);
    if busy0 { return; }
    // C13.deadline: on the first poll of a token visit the end of the hold time is the previous token time + TTR (minus the GAP reserve)
    if f0.last_token_time != data0.token_time {
        let mut end = f0.last_token_time + f0.p.token_rotation_time();
        if matches!(f0.gap_state, GapState::DoPoll { .. }) { end -= f0.p.bits_to_time(u32::from(f0.p.slot_bits) + 100); }
        assert!(f.end_token_hold_time == end && f.last_token_time == data0.token_time);
    } else {
        assert!(f.end_token_hold_time == f0.end_token_hold_time && f.last_token_time == f0.last_token_time);
    }
    let asked = apps[0].tx_calls + apps[1].tx_calls;
    let waited = f0.last_bus_activity.map(|l| now <= (if phy.pending > f0.pending_bytes && now > l { now } else { l }) + f0.p.bits_to_time(33)).unwrap_or(true);
    if waited { assert!(asked == 0 && phy.tx_count == 0); }
    else {
        let before_deadline = now < f.end_token_hold_time;
        // C13.rule: new cycles only before the deadline, except one (high priority) cycle per visit
        if !before_deadline && fcd0 { assert!(asked == 0 && phy.tx_count == 0 && matches!(f.state, State::PassToken { .. })); }
        if asked > 0 && !before_deadline { assert!(!fcd0 && apps[f0.next_application.min(1)].asked_high_only); }
        if asked > 0 && before_deadline { assert!(!apps[0].asked_high_only && !apps[1].asked_high_only); }
        // C15.ask: each application at most once per call, starting with next_application, in round-robin order
        assert!(apps[0].tx_calls <= 1 && apps[1].tx_calls <= 1 && (asked as usize) <= napps);
        if napps == 0 { assert!(asked == 0 && matches!(f.state, State::PassToken { .. })); }
        // C13.one-cycle / C15.fair: when nobody transmits, the (possibly only guaranteed) message cycle was offered to every
        // application whose turn had not come yet in this visit - a decline never costs the others their offer
        if (before_deadline || !fcd0) && napps >= 1 && phy.tx_count == 0 {
            let d = match data0.first_app { None => napps, Some(fa) => { let d = (fa + napps - f0.next_application) % napps; if d == 0 { napps } else { d } } };
            assert!(asked as usize == d);
        }
        if asked >= 1 { assert!(unsafe { VK_APP_ORDER[0] } as usize == f0.next_application); }
        if asked == 2 { assert!(unsafe { VK_APP_ORDER[1] } as usize == (f0.next_application + 1) % napps); }
        if phy.tx_count == 1 {
            let h = sent_data(phy).unwrap();
            let expects = !matches!(h.fc, crate::fdl::FunctionCode::Request { req: crate::fdl::RequestType::SdnLow, .. });
            // C15: the round-robin start marker of this visit survives the transmission: it is set as soon as one
            // application has ended its turn, and carried into AwaitDataResponse unchanged
            let want_data = UseTokenData { token_time: data0.token_time, first_app: if asked == 1 { data0.first_app } else { data0.first_app.or(Some(f0.next_application)) } };
            if expects { assert!(f.state == (State::AwaitDataResponse { address: h.da, data: want_data })); }
            else { assert!(f.state == (State::UseToken { data: want_data, first_cycle_done: true })); }
        }
    }
    if matches!(f.state, State::PassToken { .. }) { assert!(f.state == (State::PassToken { do_gap: DoGap::Yes, attempt: PassTokenAttempt::First }) && phy.tx_count == 0); }
    kani::cover!(asked == 2);
    kani::cover!(matches!(f.state, State::AwaitDataResponse { .. }));
});

// ---- AwaitDataResponse: reply admission and routing (C04.admit, C15.match, C13.rule)
step_harness!(fdl_step_await_data, 4, |f0, f, phy, now, apps, napps| {
    let ts = f0.p.address;
    let address = match f0.state { State::AwaitDataResponse { address, .. } => address, _ => unreachable!() };
    assert!(removed() == 0 && sent_token(phy).is_none());
    let me = &apps[f0.next_application.min(1)];
    let other = &apps[1 - f0.next_application.min(1)];
    let busy0 = (phy.transmitting && phy.tx_count == 0) || f0.last_bus_activity.map(|l| now <= l).unwrap_or(false);
    // at most one of reply / time-out, only to the sender
    assert!(me.rx_calls + me.to_calls <= 1 && other.rx_calls == 0 && other.to_calls == 0);
    if !busy0 && phy.n_rx >= 1 {
        // exactly the first pending telegram is looked at
        assert!(phy.delivered == 1);
        let admissible = phy.rx_kind[0] == 0 || (phy.rx_kind[0] == 2 && phy.rx_sa[0] == address && phy.rx_da[0] == ts && phy.rx_fc_resp[0]);
        if admissible {
            assert!(me.rx_calls == 1 && me.to_calls == 0 && matches!(f.state, State::UseToken { first_cycle_done: true, .. }) && phy.tx_count == 0);
        } else {
            assert!(me.rx_calls == 0 && me.to_calls == 0 && matches!(f.state, State::ActiveIdle { .. }) && phy.tx_count == 0);
        }
    }
    if !busy0 && phy.n_rx == 0 {
        assert!(me.rx_calls == 0);
        if slot_expired(f0, phy, now) {
            assert!(me.to_calls == 1);
            assert!(matches!(f.state, State::UseToken { .. } | State::AwaitDataResponse { .. } | State::PassToken { .. }));
            // C13.rule: the cycle that just timed out was this visit's guaranteed cycle; past the deadline no further
            // cycle is started and the token is passed on
            assert!(f.end_token_hold_time == f0.end_token_hold_time);
            if now >= f0.end_token_hold_time {
                assert!(apps[0].tx_calls + apps[1].tx_calls == 0 && phy.tx_count == 0);
                assert!(f.state == (State::PassToken { do_gap: DoGap::Yes, attempt: PassTokenAttempt::First }));
            }
            if let State::UseToken { first_cycle_done, .. } = f.state { assert!(first_cycle_done); }
        } else {
            assert!(me.to_calls == 0 && f.state == f0.state && phy.tx_count == 0);
        }
    }
    let _ = napps;
    kani::cover!(me.rx_calls == 1);
    kani::cover!(me.to_calls == 1);
});

// ---- PassToken: one GAP poll per visit, only into the own GAP, otherwise the token goes to NS (C12.visit, C01.role)
step_harness!(fdl_step_pass_token, 5, |f0, f, phy, _now, apps, _n| {
    let (ts, hsa) = (f0.p.address, f0.p.highest_station_address);
    let (do_gap0, attempt0) = match f0.state { State::PassToken { do_gap, attempt } => (do_gap, attempt), _ => unreachable!() };
    assert!(apps[0].tx_calls + apps[1].tx_calls == 0 && removed() == 0);
    assert!(matches!(f.state, State::PassToken { .. } | State::AwaitStatusResponse { .. } | State::CheckTokenPass { .. } | State::UseToken { .. }));
    if let Some(h) = sent_data(phy) {
        assert!(do_gap0 == DoGap::Yes);
        assert!(matches!(h.fc, crate::fdl::FunctionCode::Request { req: crate::fdl::RequestType::FdlStatus, .. }) && h.sa == ts);
        assert!(h.da != ts && in_gap(h.da, ts, f0.token_ring.next_station(), hsa));
        assert!(f.state == (State::AwaitStatusResponse { address: h.da }) && f.gap_state == (GapState::DoPoll { current_address: h.da }));
    }
    if let Some((da, sa)) = sent_token(phy) {
        assert!(sa == ts && da == f0.token_ring.next_station());
        if da == ts { assert!(matches!(f.state, State::UseToken { first_cycle_done: false, .. })); }
        else { assert!(f.state == (State::CheckTokenPass { attempt: attempt0 })); }
        // C12.visit: waiting counter
        if do_gap0 == DoGap::Yes {
            match f0.gap_state {
                GapState::Waiting { rotation_count } => if rotation_count <= f0.p.gap_wait_rotations { assert!(f.gap_state == (GapState::Waiting { rotation_count: rotation_count + 1 })); }
                                                        else { assert!(f.gap_state == (GapState::Waiting { rotation_count: 0 })); },
                GapState::DoPoll { .. } => assert!(f.gap_state == (GapState::Waiting { rotation_count: 0 })),
            }
        } else { assert!(f.gap_state == f0.gap_state); }
    }
    if phy.tx_count == 0 { assert!(f.state == f0.state && f.gap_state == f0.gap_state); }
    kani::cover!(sent_data(phy).is_some());
    kani::cover!(sent_token(phy).is_some());
});

// ---- CheckTokenPass: supervision for one slot time, two retries, then removal of the silent successor (C11.supervise, F3)
step_harness!(fdl_step_check_token_pass, 6, |f0, f, phy, now, apps, _n| {
    let ts = f0.p.address;
    let attempt0 = match f0.state { State::CheckTokenPass { attempt } => attempt, _ => unreachable!() };
    assert!(apps[0].tx_calls + apps[1].tx_calls == 0 && sent_data(phy).is_none());
    let busy0 = (phy.transmitting && phy.tx_count == 0) || f0.last_bus_activity.map(|l| now <= l).unwrap_or(false);
    if !busy0 {
        if slot_expired(f0, phy, now) {
            // nothing heard for a slot time: resend to the same NS twice, then drop it
            assert!(phy.delivered == 0);
            if attempt0 == PassTokenAttempt::Third { assert!(removed() == 1 && unsafe { crate::fdl::__verif_kani_token_ring::VK_REMOVED_ADDR } == f0.token_ring.next_station()); }
            else { assert!(removed() == 0); }
            if let Some((da, sa)) = sent_token(phy) {
                assert!(sa == ts);
                if attempt0 != PassTokenAttempt::Third { assert!(da == f0.token_ring.next_station()); }
                let next_attempt = match attempt0 { PassTokenAttempt::First => PassTokenAttempt::Second, PassTokenAttempt::Second => PassTokenAttempt::Third, PassTokenAttempt::Third => PassTokenAttempt::First };
                if da != ts { assert!(f.state == (State::CheckTokenPass { attempt: next_attempt })); } else { assert!(matches!(f.state, State::UseToken { .. })); }
            }
        } else {
            // a successor that was heard is never removed
            assert!(removed() == 0 && phy.tx_count == 0);
            if phy.n_rx == 0 { assert!(f.state == f0.state); } else { assert!(matches!(f.state, State::ActiveIdle { .. } | State::ListenToken { .. } | State::UseToken { .. })); }
            // C11.accept (while supervising a pass): a single token offer heard in the slot is accepted at once only from the
            // predecessor registered BEFORE this poll - also when it comes from the successor the token was just passed to
            if phy.n_rx == 1 && matches!(f.state, State::UseToken { .. }) {
                assert!(phy.rx_kind[0] == 1 && phy.rx_da[0] == ts && phy.rx_sa[0] == f0.token_ring.previous_station() && !phy.trailing);
            }
            // C11.listen: two tokens carrying our own address back to back take the station out of the ring; whatever
            // follows in the same batch (also a token from the predecessor) is only listened to - it stays in ListenToken
            let coll = |i: usize| i < phy.n_rx && phy.rx_kind[i] == 1 && phy.rx_sa[i] == ts;
            if (coll(0) && coll(1)) || (coll(1) && coll(2)) { assert!(matches!(f.state, State::ListenToken { .. })); }
            kani::cover!(coll(0) && coll(1) && phy.n_rx == 3);
        }
    }
    kani::cover!(removed() == 1);
});

// ---- AwaitStatusResponse: a ready master that answers becomes the successor and gets the token (C12.reply)
step_harness!(fdl_step_await_status, 7, |f0, f, phy, now, apps, _n| {
    let ts = f0.p.address;
    let address = match f0.state { State::AwaitStatusResponse { address } => address, _ => unreachable!() };
    assert!(apps[0].tx_calls + apps[1].tx_calls == 0 && removed() == 0 && sent_data(phy).is_none());
    // C12.sweep: the answer to a GAP poll (or its absence) never moves the sweep position - only the token pass of the
    // next visit does, so no address is skipped
    assert!(f.gap_state == f0.gap_state);
    let busy0 = (phy.transmitting && phy.tx_count == 0) || f0.last_bus_activity.map(|l| now <= l).unwrap_or(false);
    if !busy0 && phy.n_rx >= 1 {
        assert!(phy.delivered == 1 && phy.tx_count == 0);
        let from_polled = phy.rx_kind[0] == 2 && phy.rx_sa[0] == address && phy.rx_da[0] == ts && phy.rx_fc_resp[0];
        if from_polled {
            assert!(f.state == (State::PassToken { do_gap: DoGap::No, attempt: PassTokenAttempt::First }));
            if phy.rx_status_ok_master[0] { assert!(setns() == address && f.token_ring.next_station() == address); } else { assert!(setns() == 0xff); }
        } else {
            assert!(matches!(f.state, State::ActiveIdle { .. }) && setns() == 0xff);
        }
    }
    if !busy0 && phy.n_rx == 0 {
        assert!(setns() == 0xff);
        if slot_expired(f0, phy, now) {
            if let Some((da, sa)) = sent_token(phy) { assert!(sa == ts && da == f0.token_ring.next_station()); }
        } else { assert!(f.state == f0.state && phy.tx_count == 0); }
    }
    kani::cover!(setns() == address);
});

/// C05.api-offline (also C15): going offline - by the user, from any state - leaves a station that equals a freshly
/// constructed one.  The documentation allows the application list to be exchanged while offline, so in particular the
/// round-robin cursor must not survive (it would index past a shorter list).
#[kani::proof]
#[kani::unwind(6)]
fn c05_set_offline_resets() {
    let now = vk_any_instant();
    let napps: usize = kani::any();
    kani::assume(napps <= 2);
    let kind: u8 = kani::any();
    kani::assume(kind <= 7);
    let mut f = any_station(kind, napps, now);
    f.next_application = kani::any();
    kani::assume(f.next_application < 8);
    let ts = f.p.address;
    f.set_offline();
    assert!(matches!(f.state, State::Offline) && f.connectivity_state == ConnectivityState::Offline);
    assert!(f.next_application == 0);
    assert!(f.pending_bytes == 0 && f.last_bus_activity.is_none());
    assert!(f.gap_state == (GapState::DoPoll { current_address: ts }));
    assert!(f.last_token_time == crate::time::Instant::ZERO && f.end_token_hold_time == crate::time::Instant::ZERO);
    assert!(!f.token_ring.ready_for_ring() && f.p.address == ts);
}
