// Contract stub for TelegramTx::send_data_telegram (the serializer itself is proved against the frame format by
// Verus, unit codec / C09.ser).  The stub checks the serializer's precondition, hands the caller's closure a
// zero-filled window of exactly pdu_len bytes at a FIXED offset, records the header, and returns what the
// contract promises (byte count of the frame, expects_reply).  Used with #[kani::stub] by harnesses of callers.
use super::*;

#[derive(Clone)]
pub(crate) struct VkTx { pub h: DataTelegramHeader, pub pdu_len: usize, pub calls: u8 }
pub(crate) static mut VK_TX: Option<VkTx> = None;
pub(crate) const VK_PDU_OFF: usize = 9;

pub(crate) fn vk_stub_send_data_telegram<'a, F: FnOnce(&mut [u8])>(
    this: TelegramTx<'a>,
    header: DataTelegramHeader,
    pdu_len: usize,
    write_pdu: F,
) -> TelegramTxResponse
where
    'a: 'a,
{
    let le = pdu_len + usize::from(header.dsap.is_some()) + usize::from(header.ssap.is_some()) + 3;
    // precondition of the proved contract C09.ser
    assert!(header.da <= 127 && header.sa <= 127);
    assert!(le <= 249);
    assert!(this.buf.len() >= le + 6);
    let w = &mut this.buf[VK_PDU_OFF..VK_PDU_OFF + pdu_len];
    w.fill(0x00);
    write_pdu(w);
    let expects_reply = match header.fc {
        FunctionCode::Request { req, .. } => if req.expects_reply() { Some(header.da) } else { None },
        FunctionCode::Response { .. } => None,
    };
    let calls = unsafe { match &*core::ptr::addr_of!(VK_TX) { Some(t) => t.calls, None => 0 } };
    unsafe { VK_TX = Some(VkTx { h: header, pdu_len, calls: calls + 1 }); }
    TelegramTxResponse::new(if le == 3 || le == 11 { le + 3 } else { le + 6 }, expects_reply)
}
pub(crate) fn vk_last_tx() -> Option<VkTx> { unsafe { (*core::ptr::addr_of!(VK_TX)).clone() } }
