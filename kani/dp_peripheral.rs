// Kani contract harnesses for src/dp/peripheral.rs (C03, C04, C08, C17.hdr, C07).
// Attached as a child module of the scratch copy.  The produced request bytes are decoded by a reference
// parser written from the frame format (not the crate's decoder).
use super::*;
include!("/verif/kani/common.rs");

#[cfg(not(verif_thorough))]
const PDU_MAX: usize = 4;
#[cfg(verif_thorough)]
const PDU_MAX: usize = 32;
const DIAG_BUF: usize = 4;
const OFF_PROBE: usize = 9;

fn any_state() -> PeripheralState {
    match kani::any::<u8>() % 6 {
        0 => PeripheralState::Offline,
        1 => PeripheralState::WaitForParam,
        2 => PeripheralState::WaitForConfig,
        3 => PeripheralState::ValidateConfig,
        4 => PeripheralState::PreDataExchange,
        _ => PeripheralState::DataExchange,
    }
}
fn any_fcb() -> crate::fdl::FrameCountBit {
    match kani::any::<u8>() % 3 {
        0 => crate::fdl::FrameCountBit::First,
        1 => crate::fdl::FrameCountBit::High,
        _ => crate::fdl::FrameCountBit::Low,
    }
}
/// FC byte of an SRD request per the C08 table: bit 6 request, bit 5 FCB, bit 4 FCV, low nibble service
fn fc_byte(fcb: crate::fdl::FrameCountBit, high: bool) -> u8 {
    let (v, b) = match fcb {
        crate::fdl::FrameCountBit::First => (0u8, 1u8),
        crate::fdl::FrameCountBit::High => (1, 1),
        crate::fdl::FrameCountBit::Low => (1, 0),
        crate::fdl::FrameCountBit::Inactive => (0, 0),
    };
    0x40 | (b << 5) | (v << 4) | if high { 13 } else { 12 }
}
fn cycled(f: crate::fdl::FrameCountBit) -> crate::fdl::FrameCountBit {
    if f == crate::fdl::FrameCountBit::Low { crate::fdl::FrameCountBit::High } else { crate::fdl::FrameCountBit::Low }
}

struct Bufs { pi_i: [u8; PDU_MAX], pi_q: [u8; PDU_MAX], prm: [u8; PDU_MAX], cfg: [u8; PDU_MAX], diag: [u8; DIAG_BUF] }
fn any_bufs() -> Bufs { Bufs { pi_i: kani::any(), pi_q: kani::any(), prm: kani::any(), cfg: kani::any(), diag: kani::any() } }

/// arbitrary peripheral satisfying PeriphInv: fcb != Inactive (retry_count arbitrary u8 <= 16)
fn any_peripheral<'a>(b: &'a mut Bufs, state: PeripheralState) -> Peripheral<'a> {
    let (ni, nq, np, nc): (usize, usize, usize, usize) = (kani::any(), kani::any(), kani::any(), kani::any());
    kani::assume(ni <= PDU_MAX && nq <= PDU_MAX && np <= PDU_MAX && nc <= PDU_MAX);
    let Bufs { pi_i, pi_q, prm, cfg, diag } = b;
    let options = PeripheralOptions {
        ident_number: kani::any(), sync_mode: kani::any(), freeze_mode: kani::any(), groups: kani::any(),
        max_tsdr: kani::any(), fail_safe: kani::any(),
        user_parameters: if kani::any() { Some(&prm[..np]) } else { None },
        config: if kani::any() { Some(&cfg[..nc]) } else { None },
    };
    let addr: u8 = kani::any();
    kani::assume(addr <= 125);
    let mut p = Peripheral::new(addr, options, &mut pi_i[..ni], &mut pi_q[..nq]);
    if kani::any() { p = p.with_diag_buffer(&mut diag[..]); }
    p.state = state;
    p.retry_count = kani::any();
    kani::assume(p.retry_count <= 16);
    p.fcb = any_fcb();
    p.diag_needed = kani::any();
    if kani::any() {
        p.diag = Some(DiagnosticsInfo { flags: DiagnosticFlags::from_bits_retain(kani::any()), ident_number: kani::any(), master_address: kani::any() });
    }
    p
}

pub(crate) fn vk_set_address(p: &mut Peripheral, a: u8) { p.address = a; }

struct Snap { state: PeripheralState, retry: u8, fcb: crate::fdl::FrameCountBit, diag_needed: bool, addr: u8, diag: Option<DiagnosticsInfo> }
fn snap(p: &Peripheral) -> Snap { Snap { state: p.state, retry: p.retry_count, fcb: p.fcb, diag_needed: p.diag_needed, addr: p.address, diag: p.diag.clone() } }

/// reference view of a produced data telegram: (da, sa, dsap, ssap, fc, pdu offset, pdu len), None if not a well-formed frame
fn ref_request(buf: &[u8; 256], n: usize) -> Option<(u8, u8, Option<u8>, Option<u8>, u8, usize, usize)> {
    let (off, le) = match buf[0] {
        0x10 => (0usize, 3usize),
        0xA2 => (0, 11),
        0x68 => { if buf[1] != buf[2] || buf[3] != 0x68 || buf[1] < 3 { return None; } (3, buf[1] as usize) }
        _ => return None,
    };
    if n != off + le + 3 || buf[off + le + 2] != 0x16 { return None; }
    let mut sum = 0u8;
    let mut i = off + 1;
    while i < off + 1 + le { sum = sum.wrapping_add(buf[i]); i += 1; }
    if buf[off + 1 + le] != sum { return None; }
    let (da, sa, fc) = (buf[off + 1], buf[off + 2], buf[off + 3]);
    let (hd, hs) = (da & 0x80 != 0, sa & 0x80 != 0);
    let k = hd as usize + hs as usize;
    if le < 3 + k { return None; }
    Some((da & 0x7f, sa & 0x7f, if hd { Some(buf[off + 4]) } else { None }, if hs { Some(buf[off + 4 + hd as usize]) } else { None }, fc, off + 4 + k, le - 3 - k))
}

/// What was sent: (da, sa, dsap, ssap, fc byte, pdu offset in buf, pdu len).
/// default: header recorded by the contract stub of send_data_telegram (serializer proved by Verus, C09.ser);
/// with --cfg verif_real_serializer: the real serializer runs and a reference parser decodes its bytes.
#[cfg(not(verif_real_serializer))]
fn sent(_buf: &[u8; 256], res: &crate::fdl::TelegramTxResponse) -> (u8, u8, Option<u8>, Option<u8>, u8, usize, usize) {
    let t = crate::fdl::__verif_kani_telegram::vk_last_tx().unwrap();
    assert!(t.calls == 1);
    let le = t.pdu_len + t.h.dsap.is_some() as usize + t.h.ssap.is_some() as usize + 3;
    assert!(res.bytes_sent() == if le == 3 || le == 11 { le + 3 } else { le + 6 });
    (t.h.da, t.h.sa, t.h.dsap, t.h.ssap, t.h.fc.to_byte(), crate::fdl::__verif_kani_telegram::VK_PDU_OFF, t.pdu_len)
}
#[cfg(verif_real_serializer)]
fn sent(buf: &[u8; 256], res: &crate::fdl::TelegramTxResponse) -> (u8, u8, Option<u8>, Option<u8>, u8, usize, usize) {
    ref_request(buf, res.bytes_sent()).unwrap()
}

fn dp_state(operate: bool) -> crate::dp::DpMasterState {
    crate::dp::master::__verif_kani::vk_master_state(operate)
}

// ------------------------------------------------------------------------------------------------ transmit

/// C08.step.offline + C08.first: retry exhausted => declared Offline, exactly the Offline event, no telegram,
/// retry' = 0, and the frame count bit restarts with First for the next request.
#[kani::proof]
#[kani::unwind(20)]
#[cfg_attr(not(verif_real_serializer), kani::stub(crate::fdl::TelegramTx::send_data_telegram, crate::fdl::__verif_kani_telegram::vk_stub_send_data_telegram))]
fn c08_tx_retry_exhausted() {
    let fdl = vk_any_fdl();
    let mut b = any_bufs();
    let mut p = any_peripheral(&mut b, any_state());
    kani::assume(p.retry_count > fdl.parameters().max_retry_limit);
    let s0 = snap(&p);
    let mut buf = [0u8; 256];
    let r = p.transmit_telegram(vk_any_instant(), &dp_state(kani::any()), &fdl, crate::fdl::TelegramTx::new(&mut buf), vk_any_hp());
    match r {
        Err((_, ev)) => assert!(ev == Some(PeripheralEvent::Offline)),
        Ok(_) => assert!(false),
    }
    assert!(p.state == PeripheralState::Offline && p.retry_count == 0);
    kani::cover!(s0.state != PeripheralState::Offline && s0.fcb == crate::fdl::FrameCountBit::High);
    // C08.first: a peripheral that is *declared* offline starts over with FCV=0/FCB=1
    if s0.state != PeripheralState::Offline {
        assert!(p.fcb == crate::fdl::FrameCountBit::First);
    }
    assert!(buf[0] == 0 && buf[OFF_PROBE] == 0);
}

/// C03.tx-kind / C08.step: which request goes out in which state, with the exact header; retry accounting; fcb untouched.
#[kani::proof]
#[kani::unwind(24)]
#[cfg_attr(not(verif_real_serializer), kani::stub(crate::fdl::TelegramTx::send_data_telegram, crate::fdl::__verif_kani_telegram::vk_stub_send_data_telegram))]
fn c03_tx_kind() {
    let fdl = vk_any_fdl();
    let ts = fdl.parameters().address;
    let mut b = any_bufs();
    let state = any_state();
    let mut p = any_peripheral(&mut b, state);
    kani::assume(p.retry_count <= fdl.parameters().max_retry_limit);
    let s0 = snap(&p);
    let has_prm = p.options.user_parameters.is_some();
    let has_cfg = p.options.config.is_some();
    let operate: bool = kani::any();
    let mut buf = [0u8; 256];
    let r = p.transmit_telegram(vk_any_instant(), &dp_state(operate), &fdl, crate::fdl::TelegramTx::new(&mut buf), vk_any_hp());
    assert!(p.fcb == s0.fcb && p.state == s0.state && p.diag_needed == s0.diag_needed);
    // expected kind: 0 none, 1 diag, 2 setprm, 3 chkcfg, 4 dataexch
    let kind = match state {
        PeripheralState::Offline => if s0.retry == 0 { 1 } else { 0 },
        PeripheralState::WaitForParam => if has_prm { 2 } else { 0 },
        PeripheralState::WaitForConfig => if has_cfg { 3 } else { 0 },
        PeripheralState::ValidateConfig => 1,
        PeripheralState::PreDataExchange | PeripheralState::DataExchange => if s0.diag_needed { 1 } else { 4 },
    };
    kani::cover!(kind == 4);
    kani::cover!(kind == 2);
    match r {
        Err((_, ev)) => { assert!(kind == 0 && ev.is_none() && p.retry_count == 0); }
        Ok(res) => {
            assert!(kind != 0);
            assert!(p.retry_count == s0.retry + 1);
            assert!(res.expects_reply() == Some(s0.addr));
            let (da, sa, dsap, ssap, fc, _off, _len) = sent(&buf, &res);
            assert!(da == s0.addr && sa == ts);
            match kind {
                1 => assert!(dsap == Some(60) && ssap == Some(62) && fc == fc_byte(s0.fcb, false) && _len == 0),
                2 => assert!(dsap == Some(61) && ssap == Some(62) && fc == fc_byte(s0.fcb, false)),
                3 => assert!(dsap == Some(62) && ssap == Some(62) && fc == fc_byte(s0.fcb, false)),
                _ => assert!(dsap.is_none() && ssap.is_none() && fc == fc_byte(s0.fcb, true)),
            }
        }
    }
}

/// C03.tx-kind.setprm: Set_Prm PDU = [0x80|sync|freeze|wd, f1, f2, min_tsdr, ident_hi, ident_lo, groups] ++ user parameters
#[kani::proof]
#[kani::unwind(24)]
#[cfg_attr(not(verif_real_serializer), kani::stub(crate::fdl::TelegramTx::send_data_telegram, crate::fdl::__verif_kani_telegram::vk_stub_send_data_telegram))]
fn c03_tx_setprm_bytes() {
    let fdl = vk_any_fdl();
    let mut b = any_bufs();
    let prm_copy = b.prm;
    let mut p = any_peripheral(&mut b, PeripheralState::WaitForParam);
    kani::assume(p.retry_count <= fdl.parameters().max_retry_limit && p.options.user_parameters.is_some());
    let np = p.options.user_parameters.unwrap().len();
    let (sync, freeze, groups, ident) = (p.options.sync_mode, p.options.freeze_mode, p.options.groups, p.options.ident_number);
    let mut buf = [0u8; 256];
    let res = p.transmit_telegram(vk_any_instant(), &dp_state(kani::any()), &fdl, crate::fdl::TelegramTx::new(&mut buf), vk_any_hp()).ok().unwrap();
    let (_, _, _, _, _, off, len) = sent(&buf, &res);
    assert!(len == 7 + np);
    let wd = fdl.parameters().watchdog_factors;
    let status = 0x80u8 | if sync { 0x20 } else { 0 } | if freeze { 0x10 } else { 0 } | if wd.is_some() { 0x08 } else { 0 };
    assert!(buf[off] == status);
    match wd { Some((f1, f2)) => assert!(buf[off + 1] == f1 && buf[off + 2] == f2), None => assert!(buf[off + 1] == 0 && buf[off + 2] == 0) }
    assert!(buf[off + 3] == fdl.parameters().min_tsdr_bits);
    assert!(buf[off + 4] == (ident >> 8) as u8 && buf[off + 5] == ident as u8 && buf[off + 6] == groups);
    let i: usize = kani::any();
    kani::assume(i < np);
    assert!(buf[off + 7 + i] == prm_copy[i]);
}

/// C03.tx-kind.chkcfg: Chk_Cfg PDU = configuration bytes
#[kani::proof]
#[kani::unwind(24)]
#[cfg_attr(not(verif_real_serializer), kani::stub(crate::fdl::TelegramTx::send_data_telegram, crate::fdl::__verif_kani_telegram::vk_stub_send_data_telegram))]
fn c03_tx_chkcfg_bytes() {
    let fdl = vk_any_fdl();
    let mut b = any_bufs();
    let cfg_copy = b.cfg;
    let mut p = any_peripheral(&mut b, PeripheralState::WaitForConfig);
    kani::assume(p.retry_count <= fdl.parameters().max_retry_limit && p.options.config.is_some());
    let nc = p.options.config.unwrap().len();
    let mut buf = [0u8; 256];
    let res = p.transmit_telegram(vk_any_instant(), &dp_state(kani::any()), &fdl, crate::fdl::TelegramTx::new(&mut buf), vk_any_hp()).ok().unwrap();
    let (_, _, _, _, _, off, len) = sent(&buf, &res);
    assert!(len == nc);
    let i: usize = kani::any();
    kani::assume(i < nc);
    assert!(buf[off + i] == cfg_copy[i]);
}

/// C04.req: in Operate every Data_Exchange request carries exactly pi_q (zeros in Clear); images untouched by transmit
#[kani::proof]
#[kani::unwind(24)]
#[cfg_attr(not(verif_real_serializer), kani::stub(crate::fdl::TelegramTx::send_data_telegram, crate::fdl::__verif_kani_telegram::vk_stub_send_data_telegram))]
fn c04_tx_dataexch_bytes() {
    let fdl = vk_any_fdl();
    let mut b = any_bufs();
    let (q_copy, i_copy) = (b.pi_q, b.pi_i);
    let state = if kani::any() { PeripheralState::DataExchange } else { PeripheralState::PreDataExchange };
    let mut p = any_peripheral(&mut b, state);
    kani::assume(p.retry_count <= fdl.parameters().max_retry_limit && !p.diag_needed);
    let (nq, ni) = (p.pi_q().len(), p.pi_i().len());
    let operate: bool = kani::any();
    let mut buf = [0u8; 256];
    let res = p.transmit_telegram(vk_any_instant(), &dp_state(operate), &fdl, crate::fdl::TelegramTx::new(&mut buf), vk_any_hp()).ok().unwrap();
    let (_, _, dsap, ssap, _, off, len) = sent(&buf, &res);
    assert!(dsap.is_none() && ssap.is_none() && len == nq);
    let i: usize = kani::any();
    kani::assume(i < PDU_MAX);
    if i < nq { assert!(buf[off + i] == if operate { q_copy[i] } else { 0 }); assert!(p.pi_q()[i] == q_copy[i]); }
    if i < ni { assert!(p.pi_i()[i] == i_copy[i]); }
    assert!(p.pi_q().len() == nq && p.pi_i().len() == ni);
}

// ------------------------------------------------------------------------------------------------ receive

/// an admissible reply (what the FDL admission filter lets through, C04.admit): SC, or a response data telegram
fn any_admissible_reply<'a>(pdu: &'a [u8]) -> crate::fdl::Telegram<'a> {
    if kani::any() {
        crate::fdl::Telegram::ShortConfirmation(crate::fdl::ShortConfirmation)
    } else {
        let fc = vk_any_fc();
        kani::assume(matches!(fc, crate::fdl::FunctionCode::Response { .. }));
        crate::fdl::Telegram::Data(crate::fdl::DataTelegram {
            h: crate::fdl::DataTelegramHeader { da: kani::any(), sa: kani::any(), dsap: kani::any(), ssap: kani::any(), fc },
            pdu,
        })
    }
}
fn ref_diag(t: &crate::fdl::Telegram) -> Option<(u16, u16, Option<u8>)> {
    if let crate::fdl::Telegram::Data(d) = t {
        if d.h.dsap == Some(62) && d.h.ssap == Some(60) && d.pdu.len() >= 6 {
            let flags = (u16::from(d.pdu[0]) | (u16::from(d.pdu[1]) << 8)) & !0x0400;
            let ident = (u16::from(d.pdu[4]) << 8) | u16::from(d.pdu[5]);
            return Some((flags, ident, if d.pdu[3] == 255 { None } else { Some(d.pdu[3]) }));
        }
    }
    None
}
const RX_MAX: usize = 11;

/// C03.rx-next (bring-up states) + C08.step (fcb cycles exactly on acceptance) + C17.hdr (peripheral)
#[kani::proof]
#[kani::unwind(14)]
fn c03_rx_bringup() {
    let fdl = vk_any_fdl();
    let mut b = any_bufs();
    let state = match kani::any::<u8>() % 4 { 0 => PeripheralState::Offline, 1 => PeripheralState::WaitForParam, 2 => PeripheralState::WaitForConfig, _ => PeripheralState::ValidateConfig };
    let mut p = any_peripheral(&mut b, state);
    let s0 = snap(&p);
    let (had_buf, ext_len0) = (p.ext_diag.is_available(), p.ext_diag.raw_diag_buffer().map(|r| r.len()).unwrap_or(0));
    let store: [u8; RX_MAX] = kani::any();
    let n: usize = kani::any();
    kani::assume(n <= RX_MAX);
    let t = any_admissible_reply(&store[..n]);
    let is_sc = matches!(t, crate::fdl::Telegram::ShortConfirmation(_));
    let diag = ref_diag(&t);
    let ev = p.receive_reply(vk_any_instant(), &dp_state(kani::any()), &fdl, t);
    assert!(p.diag_needed == s0.diag_needed);
    if let (Some((flags, _, _)), true) = (diag, matches!(state, PeripheralState::Offline | PeripheralState::ValidateConfig)) {
        check_ext_diag_stored(&p, flags, &store, n, had_buf, ext_len0);
    }
    match state {
        PeripheralState::Offline => {
            kani::cover!(diag.is_some());
            if let Some((flags, ident, master)) = diag {
                assert!(p.state == PeripheralState::WaitForParam && ev == Some(PeripheralEvent::Online) && p.retry_count == 0 && p.fcb == cycled(s0.fcb));
                let d = p.diag.as_ref().unwrap();
                assert!(d.flags.bits() == flags && d.ident_number == ident && d.master_address == master);
            } else {
                assert!(p.state == PeripheralState::Offline && ev.is_none() && p.retry_count == s0.retry && p.fcb == s0.fcb && p.diag == s0.diag);
            }
        }
        PeripheralState::WaitForParam | PeripheralState::WaitForConfig => {
            if is_sc {
                assert!(p.state == if state == PeripheralState::WaitForParam { PeripheralState::WaitForConfig } else { PeripheralState::ValidateConfig });
                assert!(ev.is_none() && p.retry_count == 0 && p.fcb == cycled(s0.fcb));
            } else {
                assert!(p.state == state && ev.is_none() && p.retry_count == s0.retry && p.fcb == s0.fcb);
            }
        }
        _ => {
            // ValidateConfig: readiness decided by THIS reply's flags
            assert!(p.retry_count == 0);
            kani::cover!(diag.is_some() && p.state == PeripheralState::PreDataExchange);
            if let Some((flags, _, _)) = diag {
                assert!(p.fcb == cycled(s0.fcb));
                let (prm_fault, cfg_fault, prm_req, not_ready) = (flags & 0x40 != 0, flags & 0x04 != 0, flags & 0x0100 != 0, flags & 0x02 != 0);
                if prm_fault { assert!(p.state == PeripheralState::Offline && ev == Some(PeripheralEvent::ParameterError)); }
                else if cfg_fault { assert!(p.state == PeripheralState::Offline && ev == Some(PeripheralEvent::ConfigError)); }
                else if prm_req { assert!(p.state == PeripheralState::WaitForParam && ev.is_none()); }
                else if !not_ready { assert!(p.state == PeripheralState::PreDataExchange && ev == Some(PeripheralEvent::Configured)); }
                else { assert!(p.state == PeripheralState::ValidateConfig && ev.is_none()); }
            } else {
                assert!(p.state == PeripheralState::ValidateConfig && ev.is_none() && p.fcb == s0.fcb);
            }
        }
    }
}

/// C17.store: extended diagnostics of an accepted diagnostics reply are stored exactly when the reply announces them
/// (EXT_DIAG), a buffer exists and they fit - then the stored bytes are the reply's bytes behind the 6-byte header,
/// whatever was stored before; otherwise the stored extended diagnostics are left alone
fn check_ext_diag_stored(p: &Peripheral, flags: u16, store: &[u8; RX_MAX], n: usize, had_buf: bool, len0: usize) {
    assert!(p.ext_diag.is_available() == had_buf);
    if !had_buf { return; }
    let raw = p.ext_diag.raw_diag_buffer().unwrap();
    if flags & 0x0008 != 0 && n - 6 <= DIAG_BUF {
        assert!(raw.len() == n - 6);
        let j: usize = kani::any();
        kani::assume(j < RX_MAX - 6);
        if j < n - 6 { assert!(raw[j] == store[6 + j]); }
    } else {
        assert!(raw.len() == len0);
    }
}

/// C04.rx: pi_i changes iff a data response with status Ok/DL/DH and exactly the configured length arrives; then it equals
/// the payload byte for byte; pi_q never changes; DataExchanged iff that update (or SC for an input-less peripheral).
#[kani::proof]
#[kani::unwind(14)]
fn c04_rx_dataexch() {
    let fdl = vk_any_fdl();
    let mut b = any_bufs();
    let (q_copy, i_copy) = (b.pi_q, b.pi_i);
    let state = if kani::any() { PeripheralState::DataExchange } else { PeripheralState::PreDataExchange };
    let mut p = any_peripheral(&mut b, state);
    let s0 = snap(&p);
    let (had_buf, ext_len0) = (p.ext_diag.is_available(), p.ext_diag.raw_diag_buffer().map(|r| r.len()).unwrap_or(0));
    let (nq, ni) = (p.pi_q().len(), p.pi_i().len());
    let store: [u8; RX_MAX] = kani::any();
    let n: usize = kani::any();
    kani::assume(n <= RX_MAX);
    let t = any_admissible_reply(&store[..n]);
    let is_sc = matches!(t, crate::fdl::Telegram::ShortConfirmation(_));
    let status = match &t { crate::fdl::Telegram::Data(d) => d.is_response(), _ => None };
    let saps_ok = match &t { crate::fdl::Telegram::Data(d) => d.h.dsap.is_none() && d.h.ssap.is_none(), _ => true };
    let diag = ref_diag(&t);
    let ev = p.receive_reply(vk_any_instant(), &dp_state(kani::any()), &fdl, t);
    let i: usize = kani::any();
    kani::assume(i < PDU_MAX);
    assert!(p.pi_q().len() == nq && p.pi_i().len() == ni);
    if i < nq { assert!(p.pi_q()[i] == q_copy[i]); }
    if s0.diag_needed {
        // a diagnostics cycle is outstanding: the reply must be a diagnostics response; images untouched
        if i < ni { assert!(p.pi_i()[i] == i_copy[i]); }
        if let Some((flags, _, _)) = diag { check_ext_diag_stored(&p, flags, &store, n, had_buf, ext_len0); }
        if diag.is_some() { assert!(ev == Some(PeripheralEvent::Diagnostics) && !p.diag_needed && p.retry_count == 0 && p.fcb == cycled(s0.fcb) && p.state == state); }
        else { assert!(ev.is_none() && p.diag_needed && p.retry_count == s0.retry && p.fcb == s0.fcb && p.state == state); }
    } else {
        use crate::fdl::ResponseStatus as RS;
        // a Data_Exchange reply uses the default SAPs: a response that carries a DSAP / SSAP is a reply of the wrong kind
        let status = if saps_ok { status } else { None };
        let good = matches!(status, Some(RS::Ok) | Some(RS::DataLow) | Some(RS::DataHigh)) && n == ni;
        let sc_ok = is_sc && ni == 0;
        kani::cover!(good && ni > 0);
        assert!(p.retry_count == 0 && p.fcb == cycled(s0.fcb));
        if good {
            if i < ni { assert!(p.pi_i()[i] == store[i]); }
            assert!(ev == Some(PeripheralEvent::DataExchanged) && p.state == PeripheralState::DataExchange);
        } else {
            if i < ni { assert!(p.pi_i()[i] == i_copy[i]); }
            if sc_ok { assert!(ev == Some(PeripheralEvent::DataExchanged) && p.state == PeripheralState::DataExchange); }
            else {
                assert!(ev.is_none());
                if status == Some(RS::SapNotEnabled) { assert!(p.state == PeripheralState::ValidateConfig); } else { assert!(p.state == state); }
            }
        }
        assert!(p.diag_needed == (status == Some(RS::DataHigh)));
    }
}

/// C07.events / C14.life: is_live / is_running agree with the state
#[kani::proof]
fn c07_live_running() {
    let mut b = any_bufs();
    let st = any_state();
    let p = any_peripheral(&mut b, st);
    assert!(p.is_live() == (st != PeripheralState::Offline));
    assert!(p.is_running() == (st == PeripheralState::DataExchange));
}

// ------------------------------------------------------------------------------------------------ C07.recover
// The real Peripheral::transmit_telegram / receive_reply against an ASSUMED reference slave (environment model written
// from the C07 statement: Wait_Prm / Wait_Cfg / Data_Exch, Slave_Diag always answered, retry detection by FCB).
#[derive(Clone, Copy, PartialEq, Eq)]
enum SlSt { WaitPrm, WaitCfg, DataExch }
#[derive(Clone, Copy, PartialEq, Eq)]
enum Resp { Sc, Diag, Data, Rs }
#[derive(Clone, Copy)]
struct Slave { st: SlSt, stored: Option<bool>, last: Resp }

fn any_slave() -> Slave {
    Slave {
        st: match kani::any::<u8>() % 3 { 0 => SlSt::WaitPrm, 1 => SlSt::WaitCfg, _ => SlSt::DataExch },
        stored: if kani::any() { None } else { Some(kani::any()) },
        last: match kani::any::<u8>() % 4 { 0 => Resp::Sc, 1 => Resp::Diag, 2 => Resp::Data, _ => Resp::Rs },
    }
}
fn req_kind(h: &crate::fdl::DataTelegramHeader) -> Resp {
    // which response a conforming slave in the right state gives to this request
    match h.dsap { Some(60) => Resp::Diag, Some(61) | Some(62) => Resp::Sc, _ => Resp::Data }
}
fn slave_step(s: &mut Slave, h: &crate::fdl::DataTelegramHeader) -> Resp {
    let (fcv, fcb) = match h.fc {
        crate::fdl::FunctionCode::Request { fcb: crate::fdl::FrameCountBit::First, .. } => (false, true),
        crate::fdl::FunctionCode::Request { fcb: crate::fdl::FrameCountBit::High, .. } => (true, true),
        crate::fdl::FunctionCode::Request { fcb: crate::fdl::FrameCountBit::Low, .. } => (true, false),
        _ => (false, false),
    };
    if fcv && s.stored == Some(fcb) { return s.last; }      // retransmission: repeat the last response, do not process
    s.stored = Some(fcb);
    let r = match h.dsap {
        Some(60) => Resp::Diag,
        Some(61) => { s.st = SlSt::WaitCfg; Resp::Sc }
        Some(62) => if s.st != SlSt::WaitPrm { s.st = SlSt::DataExch; Resp::Sc } else { Resp::Rs },
        None => if s.st == SlSt::DataExch { Resp::Data } else { Resp::Rs },
        _ => Resp::Rs,
    };
    s.last = r;
    r
}
/// joint invariant J of master and slave (FCB synchronisation): the slave's stored bit equals the bit of the master's next
/// request only if that request is the retransmission the slave's stored response belongs to
fn joint_inv(p: &Peripheral, s: &Slave) -> bool {
    // state correlation: the slave waits for Chk_Cfg only while the master is still going to send it
    if matches!(p.state, PeripheralState::ValidateConfig | PeripheralState::PreDataExchange | PeripheralState::DataExchange) && s.st == SlSt::WaitCfg { return false; }
    let bit = matches!(p.fcb, crate::fdl::FrameCountBit::First | crate::fdl::FrameCountBit::High);
    let fcv = p.fcb != crate::fdl::FrameCountBit::First;
    if !fcv || s.stored != Some(bit) { return true; }
    // In the two states where a rejected reply does not count towards the retry limit (Offline: probe every second call,
    // ValidateConfig: retry count reset by every reply) a stale stored response would never be replaced: there the slave's
    // stored response must be the diagnostics response to the request being retransmitted.
    match p.state {
        // the slave's stored response answers the very request that is being retransmitted, and the slave is in the
        // state that processing this request left it in
        PeripheralState::Offline | PeripheralState::ValidateConfig => s.last == Resp::Diag,
        PeripheralState::WaitForParam => s.last == Resp::Sc && s.st == SlSt::WaitCfg,
        PeripheralState::WaitForConfig => (s.last == Resp::Sc && s.st == SlSt::DataExch) || (s.last == Resp::Rs && s.st == SlSt::WaitPrm),
        _ => true,
    }
}
fn round<'a>(p: &mut Peripheral<'a>, sl: &mut Slave, fdl: &crate::fdl::FdlActiveStation, dp: &crate::dp::DpMasterState, ni: usize, lose_request: bool, lose_reply: bool) {
    let mut buf = [0u8; 256];
    let now = crate::time::Instant::ZERO;
    let before = crate::fdl::__verif_kani_telegram::vk_last_tx().map(|t| t.calls).unwrap_or(0);
    let r = p.transmit_telegram(now, dp, fdl, crate::fdl::TelegramTx::new(&mut buf), vk_any_hp());
    if r.is_err() { return; }
    let t = crate::fdl::__verif_kani_telegram::vk_last_tx().unwrap();
    assert!(t.calls == before + 1);
    if lose_request { return; }
    let resp = slave_step(sl, &t.h);
    if lose_reply { return; }
    let (ts, addr) = (t.h.sa, t.h.da);
    let flags: u16 = 0x0400 | match sl.st { SlSt::WaitPrm => 0x0100 | 0x0002, SlSt::WaitCfg => 0x0002, SlSt::DataExch => 0 };
    let diag_pdu = [flags as u8, (flags >> 8) as u8, 0, ts, 0x12, 0x34];
    let in_data = [0x5au8; PDU_MAX];
    let ok = crate::fdl::FunctionCode::Response { state: crate::fdl::ResponseState::Slave, status: crate::fdl::ResponseStatus::Ok };
    let rs = crate::fdl::FunctionCode::Response { state: crate::fdl::ResponseState::Slave, status: crate::fdl::ResponseStatus::SapNotEnabled };
    let tel = match resp {
        Resp::Sc => crate::fdl::Telegram::ShortConfirmation(crate::fdl::ShortConfirmation),
        Resp::Diag => crate::fdl::Telegram::Data(crate::fdl::DataTelegram { h: crate::fdl::DataTelegramHeader { da: ts, sa: addr, dsap: Some(62), ssap: Some(60), fc: ok }, pdu: &diag_pdu }),
        Resp::Data => crate::fdl::Telegram::Data(crate::fdl::DataTelegram { h: crate::fdl::DataTelegramHeader { da: ts, sa: addr, dsap: None, ssap: None, fc: ok }, pdu: &in_data[..ni] }),
        Resp::Rs => crate::fdl::Telegram::Data(crate::fdl::DataTelegram { h: crate::fdl::DataTelegramHeader { da: ts, sa: addr, dsap: None, ssap: None, fc: rs }, pdu: &[] }),
    };
    let _ = p.receive_reply(now, dp, fdl, tel);
}

#[cfg(not(verif_thorough))]
const K_ROUNDS: usize = 12;
#[cfg(verif_thorough)]
const K_ROUNDS: usize = 16;
#[cfg(not(verif_thorough))]
const LIMIT_MAX: u8 = 2;
#[cfg(verif_thorough)]
const LIMIT_MAX: u8 = 5;

/// C07.recover: from every master state (any bring-up state, FCB, retry count, pending diagnostics) and every slave state
/// related by J, K fault-free rounds bring the peripheral into data exchange, and it stays there.
#[kani::proof]
#[kani::unwind(20)]
#[kani::stub(crate::fdl::TelegramTx::send_data_telegram, crate::fdl::__verif_kani_telegram::vk_stub_send_data_telegram)]
fn c07_recover() {
    let mut params = vk_any_params();
    kani::assume(params.max_retry_limit <= LIMIT_MAX);
    let fdl = crate::fdl::FdlActiveStation::new(params);
    let dp = dp_state(true);
    let mut b = any_bufs();
    let mut p = any_peripheral(&mut b, any_state());
    kani::assume(p.options.user_parameters.is_some() && p.options.config.is_some());
    kani::assume(p.retry_count <= fdl.parameters().max_retry_limit + 1);
    let ni = p.pi_i().len();
    let mut sl = any_slave();
    kani::assume(joint_inv(&p, &sl));
    let mut k = 0;
    while k < K_ROUNDS { round(&mut p, &mut sl, &fdl, &dp, ni, false, false); k += 1; }
    assert!(p.is_running() && sl.st == SlSt::DataExch);
    round(&mut p, &mut sl, &fdl, &dp, ni, false, false);
    assert!(p.is_running() && sl.st == SlSt::DataExch && joint_inv(&p, &sl));
}

/// J is inductive: preserved by any round, fault-free or with a lost request, a lost reply or a slave power cycle
#[kani::proof]
#[kani::unwind(20)]
#[kani::stub(crate::fdl::TelegramTx::send_data_telegram, crate::fdl::__verif_kani_telegram::vk_stub_send_data_telegram)]
fn c07_joint_inv_inductive() {
    let fdl = vk_any_fdl();
    let dp = dp_state(true);
    let mut b = any_bufs();
    let mut p = any_peripheral(&mut b, any_state());
    kani::assume(p.retry_count <= fdl.parameters().max_retry_limit + 1);
    let ni = p.pi_i().len();
    let mut sl = any_slave();
    kani::assume(joint_inv(&p, &sl));
    if kani::any() { sl = Slave { st: SlSt::WaitPrm, stored: None, last: Resp::Rs }; }     // power cycle
    let (lq, lr): (bool, bool) = (kani::any(), kani::any());
    round(&mut p, &mut sl, &fdl, &dp, ni, lq, lr);
    assert!(joint_inv(&p, &sl));
    assert!(p.retry_count <= fdl.parameters().max_retry_limit + 1);
}

/// C03 / C08: reset_address() is a request to (re-)parameterise: the peripheral starts over from Offline with FCB First,
/// no stale diagnostics, and keeps its buffers
#[kani::proof]
#[kani::unwind(10)]
fn c03_reset_address() {
    let mut b = any_bufs();
    let (q_copy, i_copy) = (b.pi_q, b.pi_i);
    let mut p = any_peripheral(&mut b, any_state());
    let (nq, ni) = (p.pi_q().len(), p.pi_i().len());
    let had_diag_buf = p.ext_diag.is_available();
    let new_addr: u8 = kani::any();
    p.reset_address(new_addr);
    assert!(p.address == new_addr && p.state == PeripheralState::Offline && p.retry_count == 0);
    assert!(p.fcb == crate::fdl::FrameCountBit::First && !p.diag_needed && p.diag.is_none());
    assert!(!p.is_live() && !p.is_running());
    assert!(p.pi_q().len() == nq && p.pi_i().len() == ni && p.ext_diag.is_available() == had_diag_buf);
    let i: usize = kani::any();
    kani::assume(i < PDU_MAX);
    if i < nq { assert!(p.pi_q()[i] == q_copy[i]); }
    if i < ni { assert!(p.pi_i()[i] == i_copy[i]); }
}
