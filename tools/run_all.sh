#!/bin/sh
# run every claimed check (quick by default) on the real tree, regenerating evidence/; prints one line per property
cd /verif
TIER=${1:-quick}
for p in $(python3 -c "import tomllib;print(' '.join(k for k in tomllib.load(open('checks.toml','rb'))))"); do
  s=$(date +%s)
  out=$(./check $p $TIER 2>&1); rc=$?
  e=$(date +%s)
  echo "$p exit=$rc $((e-s))s $(echo "$out" | grep -E '^property=' | head -1)"
  echo "$out" | grep -E "VIOLATION|INCONCLUSIVE|KNOWN-FINDING" | cut -c1-300
done
