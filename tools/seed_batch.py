#!/usr/bin/env python3
"""Run the registered check of a seeded change's property against a scratch copy of /repo with the change applied
(VERIF_REPO / VERIF_OUT redirect: /repo and the committed evidence stay untouched).
usage: seed_batch.py [-j N] <seed_dir> ...      seed_dir = .../Cxx-out/<A|B|C> or /verif/seeded/Cxx-A containing patch.diff
Writes <seed_dir>/check_result.json and prints one line per seed."""
import concurrent.futures as cf
import json
import os
import re
import shutil
import subprocess
import sys
import tempfile
import time


def prop_of(seed):
    m = re.search(r'(C\d\d)-out', seed) or re.search(r'/(C\d\d)-[A-Z]/?$', seed)
    return m.group(1)


def run(seed):
    seed = seed.rstrip('/')
    pid = prop_of(seed)
    tier = os.environ.get('SEED_TIER', 'quick')
    d = tempfile.mkdtemp(prefix='seedrepo-')
    t0 = time.time()
    res = {'seed': seed, 'property': pid, 'tier': tier}
    try:
        subprocess.run(['rsync', '-a', '--exclude', '/target', '--exclude', '/.git/worktrees', '/repo/', d + '/'], check=True)
        r = subprocess.run(['git', '-C', d, 'apply', os.path.join(seed, 'patch.diff')], capture_output=True, text=True)
        if r.returncode:
            res['error'] = 'patch does not apply: ' + r.stderr[:300]
            return res
        env = dict(os.environ, VERIF_REPO=d, VERIF_OUT=d + '/.verif-out')
        c = subprocess.run(['/verif/check', pid, tier], capture_output=True, text=True, env=env)
        res['exit'] = c.returncode
        res['lines'] = [l.replace(d, '<scratch>')[:400] for l in c.stdout.splitlines()
                        if l.startswith(('VIOLATION', 'INCONCLUSIVE', 'refuted', 'property=', 'KNOWN-FINDING'))]
        res['refuted'] = [re.match(r'refuted obligation (\S+)', l).group(1) for l in res['lines'] if l.startswith('refuted obligation')]
        # keep the first replay file as a sample
        for l in c.stdout.splitlines():
            m = re.match(r'VIOLATION property=\S+ replay=(\S+)', l)
            if m and os.path.exists(m.group(1)):
                try:
                    rp = json.load(open(m.group(1)))
                    res['sample_replay'] = {k: (v if not isinstance(v, str) else v[:1500]) for k, v in rp.items()
                                            if k in ('obligation', 'function', 'engine', 'clause', 'verifier_message', 'input', 'observed', 'failing_input_found', 'kani_concrete_playback')}
                except Exception:
                    pass
                break
        return res
    finally:
        res['wall_s'] = round(time.time() - t0, 1)
        res['head'] = subprocess.run('git -C /repo rev-parse --short HEAD', shell=True, capture_output=True, text=True).stdout.strip()
        res['verif_head'] = subprocess.run('git -C /verif rev-parse --short HEAD', shell=True, capture_output=True, text=True).stdout.strip()
        json.dump(res, open(os.path.join(seed, 'check_result.json'), 'w'), indent=1)
        shutil.rmtree(d, ignore_errors=True)


if __name__ == '__main__':
    args = sys.argv[1:]
    j = 2
    if args and args[0] == '-j':
        j = int(args[1])
        args = args[2:]
    with cf.ThreadPoolExecutor(max_workers=j) as ex:
        for res in ex.map(run, args):
            print('%s %s exit=%s %.0fs %s' % (res['seed'], res['property'], res.get('exit'), res.get('wall_s', 0),
                                              res.get('error', '') or ','.join(res.get('refuted', []))[:200]), flush=True)
