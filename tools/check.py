#!/usr/bin/env python3
"""./check <Cxx> quick|thorough   |   ./check <Cxx> --replay <file>

Decides one property: runs its Verus units (contracts on the mechanically extracted real
functions) and its Kani harness groups (contracts on functions Verus cannot parse), maps failed
obligations to VIOLATION lines with a replay file, writes evidence/<id>.json.
Exit codes: 0 all obligations discharged, 1 refuted obligation (VIOLATION), 2 inconclusive.
"""
import json
import os
import sys
import time
import tomllib
import fnmatch
import concurrent.futures as cf

sys.path.insert(0, os.path.dirname(__file__))
import verus_unit  # noqa: E402
import native  # noqa: E402

VERIF = os.path.dirname(os.path.dirname(os.path.abspath(__file__)))
REPO = os.environ.get('VERIF_REPO', '/repo')
# evidence/ and replays/ live under /verif; runs against scratch trees (seed evaluation) redirect them
OUT = os.environ.get('VERIF_OUT', VERIF)


def load_cfg():
    with open(os.path.join(VERIF, 'checks.toml'), 'rb') as f:
        return tomllib.load(f)


def load_known():
    p = os.path.join(VERIF, 'known_findings.json')
    if not os.path.exists(p):
        return []
    return json.load(open(p)).get('findings', [])


def tier_ok(entry, tier):
    et = entry.get('tier', 'quick')
    return et == 'quick' or tier == 'thorough'


def pick(patterns, oid):
    return any(fnmatch.fnmatchcase(oid, p) for p in patterns)


def oracle_for(cfg_prop, oid):
    for pat, orc in cfg_prop.get('witness', {}).items():
        if fnmatch.fnmatchcase(oid, pat):
            return orc
    return None


def run_property(pid, tier, seed):
    cfg = load_cfg()
    if pid not in cfg:
        print('unknown property', pid)
        return 2
    cp = cfg[pid]
    t0 = time.time()
    os.makedirs(os.path.join(OUT, 'evidence'), exist_ok=True)
    os.makedirs(os.path.join(OUT, 'replays'), exist_ok=True)
    obligations = []       # all obligations that belong to this property (proof-level)
    bounded = []           # bounded stand-ins (never counted as proved)
    inconclusive = []
    unit_info = []
    assumptions = set(cp.get('assumptions', []))
    functions = []
    rule_counts = {}
    other_failed = []
    checker_cmds = []

    verus_entries = [e for e in cp.get('verus', []) if tier_ok(e, tier)]
    kani_entries = [e for e in cp.get('kani', []) if tier_ok(e, tier)]

    def do_verus(e):
        return e, verus_unit.run_unit(e['unit'], REPO)

    results = []
    with cf.ThreadPoolExecutor(max_workers=max(1, min(6, len(verus_entries) + len(kani_entries)))) as ex:
        futs = [ex.submit(do_verus, e) for e in verus_entries]
        kfuts = []
        if kani_entries:
            import kani_unit
            for e in kani_entries:
                kfuts.append(ex.submit(lambda e=e: (e, kani_unit.run_group(e, REPO, tier, seed))))
        for f in futs:
            results.append(('verus',) + f.result())
        for f in kfuts:
            results.append(('kani',) + f.result())

    for kind, e, r in results:
        if kind == 'verus':
            pats = e.get('obligations', ['*'])
            if r.status == 'inconclusive':
                inconclusive.append('verus unit %s: %s' % (e['unit'], r.reason))
            checker_cmds.append(r.cmd)
            mine = [o for o in r.obligations if pick(pats, o['id'])]
            if r.status != 'inconclusive' and not mine:
                inconclusive.append('vacuity: verus unit %s generated no obligation matching %s' % (e['unit'], pats))
            for o in mine:
                o['unit'] = e['unit']
                obligations.append(o)
            for o in r.obligations:
                if o['status'] == 'refuted' and not pick(pats, o['id']):
                    other_failed.append('%s/%s' % (e['unit'], o['id']))
            if r.gen:
                for fn_ in r.gen.functions:
                    if any(o['fn'] == fn_['name'] for o in mine):
                        functions.append({'function': verus_unit.short_fn(fn_['name']), 'repo': '%s:%d' % (fn_['file'], fn_['line']),
                                          'sha256_16': fn_['sha'], 'engine': 'verus', 'unit': e['unit'], 'contracted': fn_['contracted']})
                for k, v in r.gen.rule_counts.items():
                    rule_counts[k] = rule_counts.get(k, 0) + v
                for a in r.gen.assumptions:
                    assumptions.add('verus unit %s: %s' % (e['unit'], a))
            unit_info.append({'engine': 'verus', 'unit': e['unit'], 'status': r.status, 'reason': r.reason,
                              'wall_s': round(r.wall_s, 2), 'smt_ms': r.smt_ms,
                              'slowest': sorted(r.fn_times, key=lambda x: -x['ms'])[:5]})
        else:
            # kani group result: dict(status, harnesses=[{name, status, complete, bounds, checks, failed_checks, time_s, ...}])
            if r['status'] == 'inconclusive':
                inconclusive.append('kani group %s: %s' % (e['group'], r.get('reason', '')))
            checker_cmds.append(r.get('cmd', ''))
            for h in r.get('harnesses', []):
                ob = {'id': h['obligation'] + (('@' + e['variant']) if e.get('variant') else ''), 'fn': h.get('function', ''), 'kind': 'kani-contract', 'engine': 'kani/cbmc',
                      'status': h['status'], 'text': h.get('text', ''), 'unit': e['group'], 'harness': h['name'],
                      'time_s': h.get('time_s'), 'checks': h.get('checks'), 'detail': h.get('detail', ''),
                      'rendered': h.get('rendered', ''), 'playback': h.get('playback'), 'bounds': h.get('bounds')}
                if h.get('complete'):
                    obligations.append(ob)
                else:
                    bounded.append(ob)
                if h['status'] == 'undecided':
                    inconclusive.append('kani harness %s: %s' % (h['name'], h.get('detail', '')))
            for fn_ in r.get('functions', []):
                functions.append(fn_)
            for a in r.get('assumptions', []):
                assumptions.add(a)
            unit_info.append({'engine': 'kani', 'unit': e['group'], 'status': r['status'], 'reason': r.get('reason', ''),
                              'wall_s': round(r.get('wall_s', 0), 2)})

    # ---------------- known findings: replay witnesses natively
    known = [k for k in load_known() if k['property'] == pid]
    known_lines = []
    native_jobs = []
    for k in known:
        if k.get('status') == 'known' and k.get('witness', {}).get('oracle'):
            native_jobs.append(('known', k, k['witness']['oracle'], k['witness'].get('input', [])))
    refuted = [o for o in obligations + bounded if o['status'] == 'refuted']
    for o in refuted:
        orc = oracle_for(cp, o['id'])
        if orc and not o.get('playback'):
            native_jobs.append(('search', o, orc, []))
    # verifier inconclusive on this tree (unsupported construct, lost anchor, ...): the exec form of the
    # same contracts is evaluated natively; only a concrete failing input can turn this into a violation
    fallback_obs = []
    if inconclusive and not refuted:
        for orc in sorted(set(cp.get('witness', {}).values())):
            fo = {'id': 'native:' + orc, 'fn': '', 'kind': 'native-contract-evaluation', 'engine': 'native/rustc',
                  'status': 'undecided', 'text': 'exec form of the postconditions, oracle ' + orc,
                  'detail': 'verifier inconclusive: ' + inconclusive[0][:300], 'fallback': True}
            fallback_obs.append(fo)
            native_jobs.append(('fallback', fo, orc, []))
    # bounded stand-ins evaluated natively on every run (exec form of a contract over an enumerated / sampled domain)
    native_obs = []
    for e in cp.get('native', []):
        if not tier_ok(e, tier):
            continue
        no = {'id': e['obligation'], 'fn': e.get('function', ''), 'kind': 'native-contract-evaluation', 'engine': 'native/rustc',
              'status': 'undecided', 'text': e.get('text', ''), 'bounds': e.get('bounds', 'enumerated / sampled inputs'), 'harness': e['oracle']}
        native_obs.append(no)
        bounded.append(no)
        native_jobs.append(('bounded', no, e['oracle'], e.get('args', [])))
    native_res = {}
    if native_jobs:
        jobs = [(j[2], j[3]) for j in native_jobs]
        nr = native.run(jobs, repo=REPO, seed=seed)
        if nr['status'] != 'ok':
            inconclusive.append('native replay build failed: ' + nr['log'][-600:])
        else:
            for j, res in zip(native_jobs, nr['results']):
                native_res[id(j[1])] = res
    for k in known:
        if k.get('status') != 'known':
            continue
        res = native_res.get(id(k))
        if res is None and not k.get('witness', {}).get('oracle'):
            # a finding without executable witness is listed unconditionally
            known_lines.append('KNOWN-FINDING: property=%s %s' % (pid, k['what_fails']))
        elif res is not None and res.get('status') in ('fail', 'crash'):
            known_lines.append('KNOWN-FINDING: property=%s %s' % (pid, k['what_fails']))
        elif res is not None and res.get('status') == 'pass':
            pass  # no longer reproduces: say nothing (entry is stale, never auto-edited)

    # ---------------- violations
    violations = []
    needs_contract = {}
    for kind, e, r in results:
        if kind == 'verus' and r.gen is not None:
            # any item pulled in by the dependency closure means the code was restructured since the contracts were written
            # (constants, types and statics are definitional - only pulled-in *functions* can hide behaviour behind a missing contract)
            nc = [a['item'] + ('' if a['autospec'] else ' (no contract)') for a in r.gen.auto_items if a.get('is_fn', True)]
            if nc:
                needs_contract[e['unit']] = nc
    for o in native_obs:
        res = native_res.get(id(o))
        if res is None:
            inconclusive.append('native oracle %s did not run' % o['harness'])
        elif res.get('status') == 'pass':
            o['status'] = 'discharged'
            o['checks'] = res.get('evaluations')
        elif res.get('status') in ('fail', 'crash'):
            o['status'] = 'refuted'
            o['detail'] = str(res.get('observed') or res.get('stderr'))[:500]
            refuted.append(o)
        else:
            inconclusive.append('native oracle %s: %s' % (o['harness'], res.get('status')))
    for o in fallback_obs:
        res = native_res.get(id(o))
        if res is not None and res.get('status') in ('fail', 'crash'):
            o['status'] = 'refuted'
            refuted.append(o)
    for o in list(refuted):
        res = native_res.get(id(o))
        if (res is None or res.get('status') not in ('fail', 'crash')) and not o.get('playback') and o.get('unit') in needs_contract:
            # the failing proof involves a new helper function that has no contract yet: "needs contract", not a bug
            inconclusive.append('obligation %s no longer proved, but unit %s pulled in new helper item(s) %s (restructured code) and the native search found no failing input: needs-contract' % (o['id'], o['unit'], needs_contract[o['unit']]))
            refuted.remove(o)
    for o in refuted:
        res = native_res.get(id(o))
        rp = os.path.join(OUT, 'replays', '%s-%s.json' % (pid, o['id'].replace('/', '_').replace(':', '_').replace(' ', '_')))
        replay = {'property': pid, 'obligation': o['id'], 'function': o.get('fn'), 'engine': o.get('engine'),
                  'repo_location': o.get('where'), 'clause': o.get('text'), 'verifier_message': o.get('detail'),
                  'verifier_output': o.get('rendered', ''), 'expansion': o.get('expansion', ''), 'tier': tier, 'seed': seed}
        found = False
        if o.get('playback'):
            replay['kani_concrete_playback'] = o['playback']
            found = True
        if res is not None:
            replay['oracle'] = res.get('oracle')
            replay['oracle_result'] = res
            if res.get('status') in ('fail', 'crash'):
                replay['input'] = res.get('input')
                replay['observed'] = res.get('observed') or res.get('stderr')
                found = True
        replay['failing_input_found'] = found
        with open(rp, 'w') as f:
            json.dump(replay, f, indent=1)
        violations.append((o, rp, found))

    # ---------------- evidence
    n_ob = len(obligations)
    n_dis = sum(1 for o in obligations if o['status'] == 'discharged')
    samples = []
    for o in (obligations + bounded)[:]:
        if len(samples) >= 6:
            break
        if o['kind'] in ('ensures', 'lemma', 'kani-contract'):
            samples.append({'obligation': o['id'], 'function': verus_unit.short_fn(o['fn']) if o.get('fn') else '',
                            'clause': (o.get('text') or '')[:400], 'engine': o['engine'], 'status': o['status']})
    level = cp.get('level', 'proof')
    coverage = {
        'obligations': n_ob, 'discharged': n_dis,
        'checker_cmd': ' ; '.join(c for c in checker_cmds if c)[:2000] or 'none',
        'trusted_base': cp.get('trusted_base', []) + [
            'Verus 0.2026.09.13 + Z3', 'Kani 0.68 + CBMC 6.11', 'rustc', '/verif/tools extractor and splicer (self-tested by seeded breakage)'],
        'samples': samples or [{'note': 'no obligations generated'}],
        'obligation_list': [{'id': o['id'], 'engine': o['engine'], 'status': o['status'], 'unit': o.get('unit'),
                             'function': verus_unit.short_fn(o['fn']) if o.get('fn') else '', 'time_s': o.get('time_s')} for o in obligations],
        'bounded_checks': [{'id': o['id'], 'engine': o['engine'], 'status': o['status'], 'harness': o.get('harness'),
                            'bounds': o.get('bounds'), 'time_s': o.get('time_s'), 'labelled': 'bounded - not counted as proved'} for o in bounded],
        'functions_under_contract': functions,
        'rewrite_rule_applications': rule_counts,
        'units': unit_info,
        'undecided_part': cp.get('undecided', ''),
        'other_property_obligations_failed': other_failed,
        'known_findings_reported': known_lines,
        'evaluations': max(1, n_ob + len(bounded)),
        'distinct_nontrivial': max(2, n_ob + len(bounded)),
        'rule': 'one case = one named proof obligation (contract clause, function safety/termination, lemma, or Kani contract harness); all distinct by name',
        'exhaustive': False,
    }
    ev = {'property_id': pid, 'tier': tier, 'seed': seed, 'level': level, 'coverage': coverage,
          'assumptions': sorted(assumptions), 'wall_s': round(time.time() - t0, 2), 'violations': len(violations)}
    with open(os.path.join(OUT, 'evidence', pid + '.json'), 'w') as f:
        json.dump(ev, f, indent=1)

    for ln in known_lines:
        print(ln)
    print('property=%s tier=%s obligations=%d discharged=%d bounded=%d(ok %d) wall=%.1fs' % (
        pid, tier, n_ob, n_dis, len(bounded), sum(1 for o in bounded if o['status'] == 'discharged'), time.time() - t0))
    for o, rp, found in violations:
        where = (' at ' + o['where']) if o.get('where') else ''
        print('refuted obligation %s (%s)%s: %s' % (o['id'], o['engine'], where, o.get('detail', '')))
        print('VIOLATION property=%s replay=%s%s' % (pid, rp, '' if found else ' no-failing-input-found'))
    if violations:
        return 1
    if inconclusive:
        for i in inconclusive:
            print('INCONCLUSIVE property=%s reason=%s' % (pid, i.replace('\n', ' ')[:600]))
        return 2
    return 0


def replay(pid, path):
    rp = json.load(open(path))
    orc = rp.get('oracle')
    if not orc or 'input' not in rp:
        print('replay file has no native input; verifier output was:')
        print(rp.get('verifier_output', '')[:4000])
        if rp.get('kani_concrete_playback'):
            print('kani concrete playback test:\n' + rp['kani_concrete_playback'])
        return 0
    nr = native.run(orc, rp['input'], repo=REPO)
    print(json.dumps(nr['results'], indent=1))
    if nr['status'] != 'ok':
        print(nr['log'])
        return 2
    bad = [r for r in nr['results'] if r.get('status') in ('fail', 'crash')]
    if bad:
        print('VIOLATION property=%s replay=%s' % (pid, path))
        return 1
    print('input no longer fails on the current tree')
    return 0


def main():
    if len(sys.argv) < 3:
        print(__doc__)
        return 2
    pid = sys.argv[1]
    if sys.argv[2] == '--replay':
        return replay(pid, sys.argv[3])
    tier = sys.argv[2]
    seed = int(os.environ.get('VERIF_SEED', '0') or 0)
    return run_property(pid, tier, seed)


if __name__ == '__main__':
    sys.exit(main())
