"""Scratch copies of /repo's working tree with verification modules appended (add-only).

Nothing is ever written to /repo.  Modules are attached by *appending* a `#[path]` module
declaration to the end of a module file of the copy, plus `pub use` re-export lines where the
module is private, so the original text of every file is an unmodified prefix of the copy
(rule R1 is the one exception for the Kani copy, see kani_unit.py).
"""
import os
import shutil
import subprocess
import fcntl
import contextlib

VERIF = os.path.dirname(os.path.dirname(os.path.abspath(__file__)))


def copy_tree(repo, dest):
    if os.path.exists(dest):
        shutil.rmtree(dest)
    os.makedirs(dest)
    # --no-times: every copy gets fresh mtimes, so cargo never mistakes a stale build (of another tree) for fresh
    subprocess.run(['rsync', '-a', '--no-times', '--exclude', '/target', '--exclude', '.git', '--exclude', '/examples/rp-pico',
                    repo.rstrip('/') + '/', dest + '/'], check=True)


def append(dest, relfile, text):
    p = os.path.join(dest, relfile)
    with open(p, 'a') as f:
        f.write('\n' + text + '\n')


@contextlib.contextmanager
def locked(name):
    os.makedirs(os.path.join(VERIF, '.cache'), exist_ok=True)
    path = os.path.join(VERIF, '.cache', name + '.lock')
    with open(path, 'w') as f:
        fcntl.flock(f, fcntl.LOCK_EX)
        try:
            yield
        finally:
            fcntl.flock(f, fcntl.LOCK_UN)
