#!/usr/bin/env python3
"""Prepare scratch worktrees and task files for sub-agents that write property-breaking changes.
usage: seed_prompts.py <base_dir> <letter> Cxx [Cyy ...]
Each agent gets only the property text and its own git worktree of /repo under <base_dir>/<Cxx>; nothing from /verif
(the one-paragraph summaries of earlier changes to the same property are listed so that mechanisms are not repeated)."""
import json, os, subprocess, sys

TMPL = '''You are helping to evaluate a verification effort by playing the role of a developer who introduces a subtle regression.

The code base is the Rust crate "profirust" (a pure-Rust PROFIBUS-DP stack: FDL token-ring active station, DP master, telegram codec, PHY back ends, GSD parser). You have your OWN scratch git worktree of it at:

    {WT}

Work ONLY inside {WT} and {OUT}. Never read, write or run anything in /repo or /verif (they are out of bounds for you), and do not create other worktrees. There is no network; `cargo` works offline (always pass --offline). To limit load use `CARGO_TARGET_DIR={WT}/target` and `-j 4` for every cargo command.

{BLOCK}TASK. Produce ONE change ("{L}") to the library source (src/** or gsd-parser/src/**; not the tests) such that:
  1. the workspace still compiles and the complete existing test suite still passes:
       cd {WT} && CARGO_TARGET_DIR={WT}/target cargo test --workspace --no-fail-fast --offline -j 4
     (65 tests + doc tests pass on the unmodified tree);
  2. the change makes the code violate the property above in a way a user of the library would care about;
  3. the violation needs something SPECIFIC to manifest - a particular multi-step sequence of operations, an unusual but legal input or parameter combination (boundary address, wrap-around, particular length, particular flag combination), a particular timing/interleaving of bus events, or two cooperating sites that each look fine alone. It must NOT be something that ordinary use or the existing tests would expose at once. Realistic regressions (an off-by-one, a swapped comparison, a dropped reset, a missing case, a wrong mask, a refactoring that subtly changes a condition, a changed default, a unit mix-up, a condition evaluated before instead of after an update) are preferred over artificial sabotage (no `if x == 0x37 {{ panic!() }}` style backdoors).
  4. Other developers already produced the changes summarised under ALREADY TAKEN above. Yours must use a DIFFERENT mechanism and a different function or a different clause of the property, and should be harder to notice than theirs. Think about which clauses of the property statement and which parts of its quantifier none of the earlier changes touched, and aim there.

Also write a DEMONSTRATION: a Rust test (either an integration test file under tests/ or a #[cfg(test)] test added to the crate, kept in a separate patch from the change itself) or a small program that FAILS with the change applied and PASSES on the unmodified tree. Run it both ways and record the outputs.

DELIVERABLES, written to {OUT}/ :
   {L}/patch.diff      - `git diff` of the library change only (must apply with `git apply` to the unmodified tree)
   {L}/demo.diff       - `git diff` adding only the demonstration (applies to the unmodified tree, independent of patch.diff)
   {L}/NOTES.md        - first line "# <property id> / change {L} - <one-line title>", then these sections: "## The change", "## Which part of the property breaks", "## What is needed for it to manifest", "## Demonstration" (command line, observed output with and without the change), "## Existing suite with the change" (confirmation that the full existing suite passes)
When finished, leave the worktree clean (`git checkout -- . && git clean -fdq -e target`) and reply with a short summary (one paragraph). Do not spend effort on anything else.
'''

V = os.path.dirname(os.path.dirname(os.path.abspath(__file__)))
base, letter, pids = sys.argv[1], sys.argv[2], sys.argv[3:]
props = {}
for l in open(os.path.join(V, 'properties.jsonl')):
    d = json.loads(l)
    props[d['id']] = d
for pid in pids:
    d = props[pid]
    out = '%s/%s-out' % (base, pid)
    wt = '%s/%s' % (base, pid)
    os.makedirs(out + '/' + letter, exist_ok=True)
    if not os.path.exists(wt):
        subprocess.run(['git', '-C', '/repo', 'worktree', 'add', '--detach', wt, 'HEAD', '-q'], check=True)
        subprocess.run(['cp', '/repo/Cargo.lock', wt + '/Cargo.lock'])
    taken = []
    for prev in 'ABCDEFGHIJKLMN':
        n = os.path.join(V, 'seeded', '%s-%s' % (pid, prev), 'NOTES.md')
        if os.path.exists(n):
            txt = open(n).read()
            taken.append('  - ' + ' '.join(txt.split('\n\n')[0:3]).replace('\n', ' ')[:330])
    open(out + '/PROPERTY.txt', 'w').write(json.dumps(d, indent=1))
    block = ('The semantic property you are to break is (full text in %s/PROPERTY.txt):\n\n%s: %s\n\nStatement: %s\n\nQuantified over: %s\n\n'
             'Files the property is anchored in: %s\n\nALREADY TAKEN (do not repeat these):\n%s\n\n\n'
             % (out, pid, d['title'], d['statement'], d['quantifier']['text'], ', '.join(d['anchors']['files']), '\n'.join(taken)))
    open(out + '/PROMPT.txt', 'w').write(TMPL.format(WT=wt, OUT=out, BLOCK=block, L=letter))
    print(out + '/PROMPT.txt')
