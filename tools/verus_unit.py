"""Build one unit file, run Verus on it, map diagnostics back to named obligations."""
import json
import os
import re
import subprocess
import sys
import tempfile
import time
import shutil
import fnmatch

sys.path.insert(0, os.path.dirname(__file__))
import extract  # noqa: E402

VERIF = os.path.dirname(os.path.dirname(os.path.abspath(__file__)))

REFUTE_RE = re.compile(
    r'postcondition not satisfied|precondition not satisfied|precondition not met|assertion failed|'
    r'possible arithmetic underflow/overflow|possible division by zero|invariant not satisfied|'
    r'loop invariant not|decreases not satisfied|could not prove termination|'
    r'possible bit shift underflow/overflow|assertion failure|unreachable|'
    r'constructor of a spec|failed this|recommendation not met|'
    r'cannot show invariant holds|possible truncation|failed to prove|fails to satisfy', re.I)
RLIMIT_RE = re.compile(r'resource limit|rlimit|timed? ?out', re.I)


class UnitRun:
    def __init__(self, unit):
        self.unit = unit
        self.status = 'inconclusive'   # ok | refuted | inconclusive
        self.reason = ''
        self.obligations = []          # dict(id, fn, kind, status, engine, where, detail)
        self.failed = []
        self.gen = None
        self.wall_s = 0.0
        self.smt_ms = 0
        self.fn_times = []
        self.raw_errors = []
        self.cmd = ''
        self.gen_path = ''


def all_obligations(g):
    obs = []
    for c in g.clauses:
        if c['kind'] in ('ensures', 'invariant'):
            obs.append({'id': c['label'], 'fn': c['fn'], 'kind': c['kind'], 'text': c['text']})
    for f in g.functions:
        obs.append({'id': 'safety:' + short_fn(f['name']), 'fn': f['name'], 'kind': 'safety',
                    'text': 'no panic / overflow / out-of-bounds / failed assert / callee precondition, termination; %s:%d' % (f['file'], f['line'])})
    for p in g.proof_fns:
        obs.append({'id': 'lemma:' + p, 'fn': p, 'kind': 'lemma', 'text': 'proof fn ' + p})
    # de-duplicate by id, keep first
    seen, out = set(), []
    for o in obs:
        if o['id'] in seen:
            continue
        seen.add(o['id'])
        out.append(o)
    return out


def short_fn(name):
    # "impl FdlActiveStation :: next_gap_poll" -> "FdlActiveStation::next_gap_poll"
    m = re.match(r"^(?:impl|trait)\s+(?:<[^>]*>\s*)?(.*?)\s*::\s*(\w+)$", name)
    if m:
        head = re.sub(r"<[^>]*>", '', m.group(1)).strip()
        head = head.split(' for ')[-1].strip()
        return '%s::%s' % (head, m.group(2))
    return name.split(' ', 1)[-1]


def enclosing_fn_in_text(lines, idx):
    for j in range(idx, -1, -1):
        m = re.search(r'\b(?:proof\s+|spec\s+|exec\s+)?fn\s+([A-Za-z_][A-Za-z0-9_]*)', lines[j])
        if m and re.match(r'\s*(pub\s+)?(open\s+|closed\s+)?(broadcast\s+)?(proof|spec|exec)?\s*fn\b', lines[j].strip().replace('pub(crate)', 'pub')):
            return m.group(1), ('proof' in lines[j])
    return None, False


def run_unit(unit_name, repo='/repo', workdir=None, rlimit=None, extra_args=None, mutate=None, keep=False, vacuity=False):
    auto_items = []
    last = None
    for _round in range(6):
        last = _run_unit_once(unit_name, repo, workdir, rlimit, extra_args, mutate, keep, auto_items, vacuity)
        if last.status != 'inconclusive' or not last.missing_names:
            break
        unit_cfg = extract.load_unit(os.path.join(VERIF, 'units', unit_name))
        added = False
        for nm, hint in last.missing_names:
            loc = extract.locate_item(unit_cfg, repo, nm, hint)
            if loc and loc not in auto_items:
                auto_items.append(loc)
                added = True
        if not added:
            break
    return last


MISSING_RE = re.compile(r"cannot find (?:value|function|type|struct|tuple struct|constant|static|struct, variant or union type|function, tuple struct or tuple variant|trait) `([A-Za-z_][A-Za-z0-9_]*)`")
MISSING_ASSOC_RE = re.compile(r"no (?:method|function or associated item|associated item|associated function or constant) named `([A-Za-z_][A-Za-z0-9_]*)` found for [a-z ]*`?&?(?:mut )?(?:code::)?([A-Za-z_][A-Za-z0-9_]*)")
UNDECLARED_RE = re.compile(r"use of undeclared type `([A-Za-z_][A-Za-z0-9_]*)`")


def _run_unit_once(unit_name, repo, workdir, rlimit, extra_args, mutate, keep, auto_items, vacuity=False):
    r = UnitRun(unit_name)
    r.missing_names = []
    unit_dir = os.path.join(VERIF, 'units', unit_name)
    t0 = time.time()
    try:
        g = extract.build(unit_dir, repo, mutate=mutate, auto_items=auto_items, vacuity=vacuity)
    except extract.LostAnchor as e:
        r.reason = 'lost-anchor: %s' % e
        return r
    except Exception as e:  # extractor failure is a tool error, never an alarm
        r.reason = 'tool-error: extractor: %r' % (e,)
        return r
    r.gen = g
    unit_cfg = extract.load_unit(unit_dir)
    own_tmp = workdir is None
    if own_tmp:
        workdir = tempfile.mkdtemp(prefix='verif-verus-')
    path = os.path.join(workdir, unit_name + '.rs')
    with open(path, 'w') as f:
        f.write(g.text)
    r.gen_path = path
    rl = str(rlimit or unit_cfg.get('rlimit', 100))
    cmd = ['verus', path, '--output-json', '--time', '--rlimit', rl, '--multiple-errors', '20',
           '--expand-errors', '--no-report-long-running'] + (extra_args or []) + ['--', '--error-format=json']
    r.cmd = ' '.join(cmd)
    try:
        p = subprocess.run(cmd, cwd=workdir, capture_output=True, text=True, timeout=unit_cfg.get('timeout_s', 900))
    except subprocess.TimeoutExpired:
        r.reason = 'rlimit: verus timed out'
        if own_tmp and not keep:
            shutil.rmtree(workdir, ignore_errors=True)
        return r
    r.wall_s = time.time() - t0
    try:
        out = json.loads(p.stdout)
    except Exception:
        out = None
    diags = []
    for ln in p.stderr.splitlines():
        ln = ln.strip()
        if ln.startswith('{'):
            try:
                diags.append(json.loads(ln))
            except Exception:
                pass
    gen_lines = g.text.split('\n')
    obs = all_obligations(g)
    ob_by_id = {o['id']: o for o in obs}
    failed = {}
    inconclusive = []
    last_err = None
    for d in diags:
        lvl = d.get('level')
        msg = d.get('message', '')
        if lvl == 'note' and last_err is not None and msg.startswith('diagnostics via expansion'):
            last_err['expansion'] = msg
            continue
        if lvl != 'error':
            continue
        if msg.startswith('aborting due to'):
            continue
        spans = d.get('spans', [])
        own = [s_ for s_ in spans if os.path.basename(s_.get('file_name', '')) == unit_name + '.rs']
        prim = next((s_ for s_ in own if s_.get('is_primary')), own[0] if own else None)
        rec = {'message': msg, 'rendered': d.get('rendered', ''), 'code': (d.get('code') or {}).get('code') if d.get('code') else None}
        last_err = rec
        r.raw_errors.append(rec)
        if rec['code'] or not REFUTE_RE.search(msg):
            m_ = MISSING_RE.search(msg) or UNDECLARED_RE.search(msg)
            if m_:
                r.missing_names.append((m_.group(1), None))
            m_ = MISSING_ASSOC_RE.search(msg)
            if m_:
                r.missing_names.append((m_.group(1), m_.group(2)))
            if RLIMIT_RE.search(msg):
                inconclusive.append('rlimit: ' + msg)
            elif 'not supported' in msg or 'unsupported' in msg.lower():
                inconclusive.append('unsupported-construct: ' + msg)
            else:
                inconclusive.append('tool-error: ' + msg)
            continue
        if prim is None:
            inconclusive.append('tool-error: no span: ' + msg)
            continue
        ln = prim['line_start']
        origin = g.linemap[ln - 1] if 0 < ln <= len(g.linemap) else None
        # secondary: failed precondition clause
        sec_clause = None
        for s in spans:
            if not s.get('is_primary'):
                o2 = g.linemap[s['line_start'] - 1] if 0 < s['line_start'] <= len(g.linemap) else None
                if o2 and o2.get('kind') == 'clause':
                    sec_clause = o2
                callee_txt = s.get('text', [{}])[0].get('text', '') if s.get('text') else ''
        where = None
        oid = None
        if origin and origin.get('kind') == 'clause' and origin.get('ckind') in ('ensures', 'invariant'):
            oid = origin['label']
            fnname = origin['fn']
        elif origin and origin.get('kind') == 'clause' and origin.get('ckind') == 'decreases':
            oid = 'safety:' + short_fn(origin['fn'])
            fnname = origin['fn']
        elif origin and origin.get('kind') in ('repo', 'splice'):
            fnname = origin['fn']
            oid = 'safety:' + short_fn(fnname)
            if origin.get('kind') == 'repo':
                where = '%s:%d' % (origin['file'], origin['line'])
        else:
            # inside spec.rs
            name, is_proof = enclosing_fn_in_text(gen_lines, ln - 1)
            fnname = name or '?'
            oid = ('lemma:' + name) if name else 'spec:?'
        rec['obligation'] = oid
        rec['where'] = where
        rec['gen_line'] = ln
        if oid not in ob_by_id:
            ob_by_id[oid] = {'id': oid, 'fn': fnname, 'kind': 'other', 'text': ''}
            obs.append(ob_by_id[oid])
        failed.setdefault(oid, []).append(rec)
    vr = (out or {}).get('verification-results', {})
    completed = out is not None and not vr.get('encountered-vir-error', False)
    # a rustc/VIR error means nothing was verified
    if inconclusive or not completed or out is None:
        r.status = 'inconclusive'
        r.reason = '; '.join(inconclusive[:3]) or 'tool-error: verus produced no result (exit %d): %s' % (p.returncode, p.stderr[-400:])
    elif failed:
        r.status = 'refuted'
    elif vr.get('success'):
        r.status = 'ok'
    else:
        r.status = 'inconclusive'
        r.reason = 'tool-error: verus reported failure without a mapped diagnostic'
    if out:
        tm = out.get('times-ms', {})
        r.smt_ms = tm.get('smt', {}).get('total', 0)
        for mod in tm.get('smt', {}).get('smt-run-module-times', []):
            for fb in mod.get('function-breakdown', []):
                r.fn_times.append({'function': fb['function'], 'ms': fb['time'], 'rlimit': fb.get('rlimit'), 'success': fb.get('success')})
        r.verified_count = vr.get('verified', 0)
    for o in obs:
        o2 = dict(o)
        o2['engine'] = 'verus/z3'
        if r.status == 'inconclusive':
            o2['status'] = 'undecided'
        elif o['id'] in failed:
            o2['status'] = 'refuted'
            f0 = failed[o['id']][0]
            o2['where'] = f0.get('where')
            o2['detail'] = f0['message']
            o2['expansion'] = f0.get('expansion', '')
            o2['rendered'] = '\n'.join(x['rendered'] for x in failed[o['id']])[:6000]
        else:
            o2['status'] = 'discharged'
        r.obligations.append(o2)
    r.failed = [o for o in r.obligations if o['status'] == 'refuted']
    if own_tmp and not keep:
        shutil.rmtree(workdir, ignore_errors=True)
    return r


def match_any(oid, patterns):
    return any(fnmatch.fnmatchcase(oid, p) for p in patterns)


def vacuity_check(unit_name, repo='/repo'):
    """Every contracted function must FAIL `ensures false`; one that still verifies has a contradictory
    precondition (or an unreachable body).  Returns (ok, list of functions that verified `false`)."""
    r = run_unit(unit_name, repo, vacuity=True)
    if r.status == 'inconclusive':
        return None, [r.reason]
    bad = [o['id'] for o in r.obligations if o['id'].startswith('vacuity.') and o['status'] != 'refuted']
    return (not bad), bad


if __name__ == '__main__':
    import argparse
    ap = argparse.ArgumentParser()
    ap.add_argument('unit')
    ap.add_argument('--repo', default='/repo')
    ap.add_argument('--keep', action='store_true')
    ap.add_argument('--vacuity', action='store_true')
    a = ap.parse_args()
    wd = tempfile.mkdtemp(prefix='verif-verus-') if a.keep else None
    r = run_unit(a.unit, a.repo, workdir=wd, keep=a.keep, vacuity=a.vacuity)
    print('unit', a.unit, 'status', r.status, r.reason, 'wall %.1fs smt %dms' % (r.wall_s, r.smt_ms))
    if a.keep:
        print('generated:', r.gen_path)
    for o in r.obligations:
        print('  %-12s %-40s %s %s' % (o['status'], o['id'], o.get('where') or '', o.get('detail') or ''))
    for e in r.raw_errors:
        if 'obligation' not in e or r.status == 'inconclusive':
            print(e['rendered'][:1500])
    if r.gen:
        print('rules:', r.gen.rule_counts)
