"""Minimal Rust-aware lexer and item locator used by the extractor.

Only what the extractor needs: tokens with byte offsets (comments, strings, chars,
lifetimes, identifiers, numbers, punctuation), brace/paren matching, locating items
(`fn`, `impl`, `enum`, `struct`, `const`, `type`, `trait`, `macro_rules!`) and splitting
macro arguments at top-level commas.  Nothing here interprets Rust semantics.
"""
import re
from dataclasses import dataclass

IDENT_RE = re.compile(r'[A-Za-z_][A-Za-z0-9_]*')
NUM_RE = re.compile(r'[0-9][0-9A-Za-z_]*(\.[0-9][0-9A-Za-z_]*)?')


@dataclass
class Tok:
    kind: str   # comment | doc | str | char | life | ident | num | punct
    text: str
    start: int
    end: int


class LexError(Exception):
    pass


def lex(src: str):
    toks = []
    i, n = 0, len(src)
    while i < n:
        c = src[i]
        if c.isspace():
            i += 1
            continue
        if src.startswith('//', i):
            j = src.find('\n', i)
            if j < 0:
                j = n
            text = src[i:j]
            kind = 'doc' if (text.startswith('///') and not text.startswith('////')) or text.startswith('//!') else 'comment'
            toks.append(Tok(kind, text, i, j))
            i = j
            continue
        if src.startswith('/*', i):
            depth, j = 1, i + 2
            while j < n and depth:
                if src.startswith('/*', j):
                    depth += 1
                    j += 2
                elif src.startswith('*/', j):
                    depth -= 1
                    j += 2
                else:
                    j += 1
            text = src[i:j]
            kind = 'doc' if text.startswith('/**') or text.startswith('/*!') else 'comment'
            toks.append(Tok(kind, text, i, j))
            i = j
            continue
        # raw strings r"..", r#".."#, br#".."#
        m = re.compile(r'b?r(#*)"').match(src, i)
        if m:
            hashes = m.group(1)
            close = '"' + hashes
            j = src.find(close, m.end())
            if j < 0:
                raise LexError('unterminated raw string at %d' % i)
            j += len(close)
            toks.append(Tok('str', src[i:j], i, j))
            i = j
            continue
        if c == '"' or (c == 'b' and i + 1 < n and src[i + 1] == '"'):
            j = i + (2 if c == 'b' else 1)
            while j < n and src[j] != '"':
                if src[j] == '\\':
                    j += 1
                j += 1
            j += 1
            toks.append(Tok('str', src[i:j], i, j))
            i = j
            continue
        if c == "'" or (c == 'b' and i + 1 < n and src[i + 1] == "'"):
            k = i + (1 if c == 'b' else 0)
            # char literal or lifetime
            m = re.compile(r"'(\\.[^']*|[^\\'])'").match(src, k)
            if m:
                toks.append(Tok('char', src[i:m.end()], i, m.end()))
                i = m.end()
                continue
            m = re.compile(r"'[A-Za-z_][A-Za-z0-9_]*").match(src, k)
            if m and c == "'":
                toks.append(Tok('life', m.group(0), i, m.end()))
                i = m.end()
                continue
        m = IDENT_RE.match(src, i)
        if m:
            toks.append(Tok('ident', m.group(0), i, m.end()))
            i = m.end()
            continue
        m = NUM_RE.match(src, i)
        if m:
            # avoid swallowing `0..5` as a float
            text = m.group(0)
            if '.' in text and src.startswith('..', i + text.index('.')):
                text = text[:text.index('.')]
            toks.append(Tok('num', text, i, i + len(text)))
            i += len(text)
            continue
        toks.append(Tok('punct', c, i, i + 1))
        i += 1
    return toks


OPEN = {'(': ')', '[': ']', '{': '}'}
CLOSE = {')', ']', '}'}


def code_toks(toks):
    return [t for t in toks if t.kind not in ('comment', 'doc')]


def match_close(toks, idx):
    """toks[idx] is an opening bracket; return index of its matching close."""
    depth = 0
    for j in range(idx, len(toks)):
        t = toks[j]
        if t.kind == 'punct':
            if t.text in OPEN:
                depth += 1
            elif t.text in CLOSE:
                depth -= 1
                if depth == 0:
                    return j
    raise LexError('unbalanced bracket at offset %d' % toks[idx].start)


ITEM_KW = {'fn', 'impl', 'enum', 'struct', 'const', 'type', 'trait', 'mod', 'static', 'use', 'macro_rules'}
QUALIFIERS = {'pub', 'crate', 'super', 'in', 'unsafe', 'async', 'extern', 'default', 'const'}


@dataclass
class Item:
    kind: str          # fn | impl | enum | struct | const | type | trait | mod | macro_rules | static | use
    name: str          # fn/enum/struct/const name; impl: normalized header
    start: int         # byte offset of first token (attributes/docs included)
    sig_start: int     # byte offset of first non-attribute token (e.g. `pub`)
    end: int           # byte offset one past the end
    body_open: int     # byte offset of `{` of the body (or -1)
    body_close: int    # byte offset of matching `}` (or -1)
    header: str = ''   # impl: text of header between `impl` and `{`


def _norm(s):
    return re.sub(r'\s+', ' ', s).strip()


def find_items(src, lo=0, hi=None, toks=None):
    """Items directly inside src[lo:hi] (not nested)."""
    if toks is None:
        toks = lex(src)
    if hi is None:
        hi = len(src)
    ts = [t for t in toks if t.start >= lo and t.end <= hi]
    items = []
    i = 0
    n = len(ts)
    while i < n:
        # collect attributes and docs
        first = i
        j = i
        while j < n:
            t = ts[j]
            if t.kind in ('doc', 'comment'):
                j += 1
                continue
            if t.kind == 'punct' and t.text == '#':
                k = j + 1
                inner = False
                if k < n and ts[k].text == '!':
                    k += 1
                    inner = True
                if k < n and ts[k].text == '[':
                    j = match_close(ts, k) + 1
                    if inner:
                        first = j   # inner attribute belongs to the enclosing module, not to the next item
                    continue
            break
        if j >= n:
            break
        sig = j
        # qualifiers
        k = j
        while k < n and ts[k].kind == 'ident' and ts[k].text in QUALIFIERS:
            if ts[k].text == 'const' and k + 1 < n and ts[k + 1].kind == 'ident' and ts[k + 1].text not in ('fn', 'unsafe', 'async', 'extern'):
                break
            k += 1
            if k < n and ts[k].text == '(' and ts[k - 1].text == 'pub':
                k = match_close(ts, k) + 1
            if k < n and ts[k].kind == 'str':  # extern "C"
                k += 1
        if k >= n:
            break
        kw = ts[k]
        if kw.kind != 'ident' or kw.text not in ITEM_KW:
            # not an item start: skip this token (or its bracket group)
            if ts[j].kind == 'punct' and ts[j].text in OPEN:
                i = match_close(ts, j) + 1
            else:
                i = j + 1
            continue
        kind = kw.text
        # find end: `;` at depth 0 or matching `}` of first `{` at depth 0
        m = k + 1
        body_open = body_close = -1
        end_idx = None
        name = ''
        if kind == 'macro_rules':
            # macro_rules! name { ... } or ( ... );
            name = ts[k + 2].text if k + 2 < n else ''
            m = k + 3
        depth_angle = 0
        while m < n:
            t = ts[m]
            if t.kind == 'punct':
                if t.text in ('(', '['):
                    m = match_close(ts, m) + 1
                    continue
                if t.text == '{':
                    c = match_close(ts, m)
                    body_open, body_close = ts[m].start, ts[c].start
                    end_idx = c
                    # struct S {..} / enum / fn / impl end here; `const X: T = Foo { .. };` continues
                    if kind in ('const', 'static', 'type', 'use'):
                        m = c + 1
                        body_open = body_close = -1
                        continue
                    break
                if t.text == ';':
                    end_idx = m
                    break
            m += 1
        if end_idx is None:
            break
        if kind == 'macro_rules' and end_idx + 1 < n and ts[end_idx + 1].text == ';' and ts[end_idx].text == ')':
            end_idx += 1
        header = ''
        if kind == 'impl':
            hs = ts[k].end
            he = body_open if body_open >= 0 else ts[end_idx].start
            header = _norm(src[hs:he])
            name = header
        elif kind != 'macro_rules':
            name = ts[k + 1].text if k + 1 < n else ''
        items.append(Item(kind, name, ts[first].start, ts[sig].start, ts[end_idx].end,
                          body_open, body_close, header))
        i = end_idx + 1
    return items


def split_args(text):
    """Split macro/call argument text at top-level commas."""
    toks = code_toks(lex(text))
    parts, depth, last = [], 0, 0
    i = 0
    while i < len(toks):
        t = toks[i]
        if t.kind == 'punct':
            if t.text in OPEN:
                depth += 1
            elif t.text in CLOSE:
                depth -= 1
            elif t.text == ',' and depth == 0:
                parts.append(text[last:t.start].strip())
                last = t.end
            elif t.text == '|' and depth == 0:
                pass
        i += 1
    tail = text[last:].strip()
    if tail:
        parts.append(tail)
    return parts


def find_macro_calls(src, names):
    """Yield (start, end, name, args_text) for macro invocations `name!(...)` / `path::name!(...)`.
    names: set of macro names (last path segment), or full paths like 'log::warn'."""
    toks = code_toks(lex(src))
    out = []
    i = 0
    n = len(toks)
    while i < n:
        t = toks[i]
        if t.kind == 'ident' and i + 2 < n and toks[i + 1].text == '!' and toks[i + 2].text in OPEN:
            # assemble path backwards
            start = i
            path = t.text
            j = i
            while j >= 3 and toks[j - 1].text == ':' and toks[j - 2].text == ':' and toks[j - 3].kind == 'ident' \
                    and toks[j - 1].start == toks[j - 2].end:
                path = toks[j - 3].text + '::' + path
                j -= 3
                start = j
            if t.text in names or path in names:
                c = match_close(toks, i + 2)
                args = src[toks[i + 2].end:toks[c].start]
                out.append((toks[start].start, toks[c].end, path, args))
                i = c + 1
                continue
        i += 1
    return out
