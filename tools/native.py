"""Native witness search / replay against the real code.

Builds a tiny driver crate against a scratch copy of /repo in which `/verif/native/*.rs`
modules are appended under `#[cfg(rahix_profirust_verif)]` (to reach private items), and runs
one named oracle.  An oracle either replays a given input or searches (enumeration / seeded
sampling) for an input on which the real function violates the exec form of a postcondition.
Output protocol: lines `VERIF-RESULT {json}`.
"""
import json
import os
import subprocess
import sys
import shutil
import time

sys.path.insert(0, os.path.dirname(__file__))
import scratch  # noqa: E402

VERIF = scratch.VERIF
SRC = '/tmp/verif-native-src'
TARGET = os.path.join(VERIF, '.cache', 'native-target')

# (module file in repo, text appended there, [(parent file, re-export line)])
ATTACH = [
    ('src/fdl/active.rs', 'fdl_active', [('src/fdl/mod.rs', 'pub use active::__verif_native as __verif_native_active;')]),
    ('src/fdl/token_ring.rs', 'fdl_token_ring', [('src/fdl/mod.rs', 'pub use token_ring::__verif_native as __verif_native_token_ring;')]),
    ('src/fdl/telegram.rs', 'fdl_telegram', [('src/fdl/mod.rs', 'pub use telegram::__verif_native as __verif_native_telegram;')]),
    ('src/fdl/parameters.rs', 'fdl_parameters', [('src/fdl/mod.rs', 'pub use parameters::__verif_native as __verif_native_parameters;')]),
    ('src/fdl/live_list.rs', 'fdl_live_list', []),
    ('src/dp/peripheral.rs', 'dp_peripheral', [('src/dp/mod.rs', 'pub use peripheral::__verif_native as __verif_native_peripheral;')]),
    ('src/dp/master.rs', 'dp_master', [('src/dp/mod.rs', 'pub use master::__verif_native as __verif_native_master;')]),
    ('src/dp/diagnostics.rs', 'dp_diagnostics', [('src/dp/mod.rs', 'pub use diagnostics::__verif_native as __verif_native_diagnostics;')]),
    ('src/dp/scan.rs', 'dp_scan', []),
    ('src/phy/mod.rs', 'phy', []),
    ('gsd-parser/src/lib.rs', 'gsd_lib', []),
]


def prepare(repo='/repo'):
    scratch.copy_tree(repo, SRC)
    for modfile, name, reexports in ATTACH:
        src = os.path.join(VERIF, 'native', name + '.rs')
        if not os.path.exists(src) or not os.path.exists(os.path.join(SRC, modfile)):
            continue
        scratch.append(SRC, modfile,
                       '#[cfg(rahix_profirust_verif)]\n#[path = "%s"]\npub mod __verif_native;' % src)
        for pf, line in reexports:
            scratch.append(SRC, pf, '#[cfg(rahix_profirust_verif)]\n#[allow(unused_imports)]\n' + line)
    drv = os.path.join(SRC, 'verif-native')
    os.makedirs(os.path.join(drv, 'src'), exist_ok=True)
    with open(os.path.join(drv, 'Cargo.toml'), 'w') as f:
        f.write('[package]\nname = "verif-native"\nversion = "0.0.0"\nedition = "2021"\n\n[workspace]\n\n[dependencies]\n'
                'profirust = { path = "..", default-features = false, features = ["std", "phy-simulator"] }\n'
                'gsd-parser = { path = "../gsd-parser" }\n'
                'log = "0.4"\n\n[profile.dev]\nopt-level = 1\ndebug-assertions = true\noverflow-checks = true\n')
    with open(os.path.join(drv, 'src', 'main.rs'), 'w') as f:
        f.write('include!("%s");\n' % os.path.join(VERIF, 'native', 'main.rs'))
    lock = os.path.join(repo, 'Cargo.lock')
    if not os.path.exists(lock):
        lock = '/repo/Cargo.lock'
    shutil.copy(lock, os.path.join(drv, 'Cargo.lock'))
    return drv


def run(oracle, args=None, repo='/repo', seed=0, timeout=600):
    """Returns dict(status='ok'|'build-failed'|'error', results=[...], log=str, wall_s=float)."""
    t0 = time.time()
    with scratch.locked('native'):
        try:
            drv = prepare(repo)
            env = dict(os.environ)
            env['CARGO_TARGET_DIR'] = TARGET
            env['CARGO_NET_OFFLINE'] = 'true'
            env['RUSTFLAGS'] = '--cfg rahix_profirust_verif -Awarnings'
            env['VERIF_SEED'] = str(seed)
            b = subprocess.run(['cargo', 'build', '--offline', '--quiet'], cwd=drv, env=env, capture_output=True, text=True, timeout=timeout)
            public_only = False
            if b.returncode != 0:
                # the oracles that reach into private items no longer build (restructured code): fall back to the
                # public-API oracles only (the private ones then answer 'unknown oracle')
                env['RUSTFLAGS'] = '-Awarnings'
                b2 = subprocess.run(['cargo', 'build', '--offline', '--quiet'], cwd=drv, env=env, capture_output=True, text=True, timeout=timeout)
                if b2.returncode != 0:
                    return {'status': 'build-failed', 'results': [], 'log': b.stderr[-4000:], 'wall_s': time.time() - t0}
                public_only = True
            exe = os.path.join(TARGET, 'debug', 'verif-native')
            oracles = oracle if isinstance(oracle, list) else [oracle]
            results = []
            log = ''
            for orc in oracles:
                name, oargs = (orc, args or []) if isinstance(orc, str) else (orc[0], orc[1])
                try:
                    p = subprocess.run([exe, name] + [str(a) for a in oargs], env=env, capture_output=True, text=True, timeout=timeout)
                except subprocess.TimeoutExpired:
                    results.append({'oracle': name, 'status': 'timeout'})
                    continue
                got = False
                for ln in p.stdout.splitlines():
                    if ln.startswith('VERIF-RESULT '):
                        try:
                            results.append(json.loads(ln[len('VERIF-RESULT '):]))
                            got = True
                        except Exception:
                            pass
                if not got and p.returncode == 2 and 'unknown oracle' in p.stderr:
                    # oracle reaches into private items and was left out of the public-only fallback build
                    results.append({'oracle': name, 'status': 'unavailable', 'detail': 'oracle not built (private items no longer match): ' + b.stderr[-600:]})
                    continue
                if not got:
                    # a panic in the real code is itself an observation
                    results.append({'oracle': name, 'status': 'crash' if p.returncode != 0 else 'no-result',
                                    'exit': p.returncode, 'stderr': p.stderr[-1500:], 'input': [str(a) for a in oargs]})
                log += p.stdout[-2000:] + p.stderr[-2000:]
            return {'status': 'ok', 'results': results, 'log': log, 'wall_s': time.time() - t0, 'public_only': public_only}
        finally:
            shutil.rmtree(SRC, ignore_errors=True)


if __name__ == '__main__':
    r = run(sys.argv[1], sys.argv[2:], repo=os.environ.get('VERIF_REPO', '/repo'))
    print(json.dumps(r, indent=1))
