#!/usr/bin/env python3
"""Run checks against a seeded change on a scratch copy of /repo (VERIF_REPO), leaving /repo untouched.
usage: seedrun2.py <patch.diff> Cxx [Cyy ...]   -> prints one summary line per property"""
import subprocess, sys, os, tempfile, shutil
patch = sys.argv[1]
props = sys.argv[2:]
tier = os.environ.get('SEED_TIER', 'quick')
d = tempfile.mkdtemp(prefix='seedrepo-')
try:
    subprocess.run(['rsync', '-a', '--exclude', '/target', '/repo/', d + '/'], check=True)
    r = subprocess.run(['git', '-C', d, 'apply', patch], capture_output=True, text=True)
    if r.returncode:
        r = subprocess.run(['git', '-C', d, 'apply', '--3way', patch], capture_output=True, text=True)
    if r.returncode:
        print('patch does not apply:', r.stderr[:300]); sys.exit(3)
    for p in props:
        env = dict(os.environ, VERIF_REPO=d, VERIF_OUT=d + '/.verif-out')
        c = subprocess.run(['/verif/check', p, tier], capture_output=True, text=True, env=env)
        lines = [l for l in c.stdout.splitlines() if l.startswith(('VIOLATION', 'INCONCLUSIVE', 'refuted', 'property='))]
        print('%s %s exit=%d' % (os.path.basename(os.path.dirname(patch)) + '/' + os.path.basename(os.path.dirname(os.path.dirname(patch))), p, c.returncode), flush=True)
        for l in lines: print('    ' + l[:300], flush=True)
finally:
    shutil.rmtree(d, ignore_errors=True)
