"""Kani route: function-level contract harnesses on the real crate.

A scratch copy of /repo's working tree is made, rule R1 (log macros -> evaluation of their
arguments) is applied to it, and `/verif/kani/<module>.rs` files are attached as child modules
under cfg(kani) (add-only).  `cargo kani` then checks the requested harnesses; results are mapped
to obligations through kani/harnesses.toml.  Scratch copy and build output are removed afterwards.
"""
import os
import re
import shutil
import subprocess
import sys
import tempfile
import time
import tomllib

sys.path.insert(0, os.path.dirname(__file__))
import scratch  # noqa: E402
import extract  # noqa: E402

VERIF = scratch.VERIF

ATTACH = {
    'fdl_active': 'src/fdl/active.rs',
    'fdl_token_ring': 'src/fdl/token_ring.rs',
    'fdl_telegram': 'src/fdl/telegram.rs',
    'fdl_parameters': 'src/fdl/parameters.rs',
    'fdl_live_list': 'src/fdl/live_list.rs',
    'dp_peripheral': 'src/dp/peripheral.rs',
    'dp_master': 'src/dp/master.rs',
    'dp_peripheral_set': 'src/dp/peripheral_set.rs',
    'dp_diagnostics': 'src/dp/diagnostics.rs',
    'dp_scan': 'src/dp/scan.rs',
    'phy': 'src/phy/mod.rs',
    'lib': 'src/lib.rs',
}
GSD_ATTACH = {'gsd_lib': 'gsd-parser/src/lib.rs'}
# private modules whose harness module must be reachable from other modules: (parent file, re-export line)
REEXPORT = {
    'fdl_telegram': ('src/fdl/mod.rs', 'pub(crate) use telegram::__verif_kani as __verif_kani_telegram;'),
    'fdl_token_ring': ('src/fdl/mod.rs', 'pub(crate) use token_ring::__verif_kani as __verif_kani_token_ring;'),
    'fdl_active': ('src/fdl/mod.rs', 'pub(crate) use active::__verif_kani as __verif_kani_active;'),
}


def load_harnesses():
    with open(os.path.join(VERIF, 'kani', 'harnesses.toml'), 'rb') as f:
        return tomllib.load(f)


def apply_r1(root):
    """R1 on the scratch copy: log macros become evaluation of their arguments (the `log` crate's
    #[track_caller] machinery is not supported by Kani)."""
    n = 0
    for base in ('src', 'gsd-parser/src'):
        for dp, _, files in os.walk(os.path.join(root, base)):
            for fn in files:
                if not fn.endswith('.rs'):
                    continue
                p = os.path.join(dp, fn)
                s = open(p).read()
                if 'log::' not in s:
                    continue
                counts = {}
                t = extract.rewrite_macros(s, counts, mode='kani')
                n += counts.get('R1.log', 0)
                if t != s:
                    open(p, 'w').write(t)
    return n


def prepare(repo, dest, modules, package='profirust'):
    scratch.copy_tree(repo, dest)
    r1 = apply_r1(dest)
    table = GSD_ATTACH if package == 'gsd-parser' else ATTACH
    hdir = os.path.join(dest, '.verif-kani')
    os.makedirs(hdir, exist_ok=True)
    for m in modules:
        src0 = os.path.join(VERIF, 'kani', m + '.rs')
        if not os.path.exists(src0):
            raise FileNotFoundError(src0)
        # the harness module is copied next to the scratch sources; every harness gets a cfg switch so that a harness
        # that no longer compiles against a restructured tree can be left out without blinding the others
        txt = open(src0).read()
        txt = re.sub(r'(?m)^(#\[kani::proof\][^\n]*\n(?:#\[[^\n]*\]\n)*\s*fn\s+(\w+)\s*\()', lambda mm: '#[cfg(not(verif_skip_%s))]\n%s' % (mm.group(2), mm.group(1)), txt)
        txt = re.sub(r'(?m)^(step_harness!\((\w+),)', lambda mm: '#[cfg(not(verif_skip_%s))]\n%s' % (mm.group(2), mm.group(1)), txt)
        src = os.path.join(hdir, m + '.rs')
        open(src, 'w').write(txt)
        scratch.append(dest, table[m], '#[cfg(kani)]\n#[path = "%s"]\npub(crate) mod __verif_kani;' % src)
        if m in REEXPORT:
            scratch.append(dest, REEXPORT[m][0], '#[cfg(kani)]\n#[allow(unused_imports)]\n' + REEXPORT[m][1])
    lock = os.path.join(repo, 'Cargo.lock')
    if not os.path.exists(lock):
        lock = '/repo/Cargo.lock'
    shutil.copy(lock, os.path.join(dest, 'Cargo.lock'))
    return r1


RES_RE = re.compile(r'VERIFICATION:- (SUCCESSFUL|FAILED)')


def parse_output(out):
    """Split cargo-kani output per harness (sequential and `-j` formats)."""
    bodies = {}
    cur = {}          # thread id (or None) -> harness name
    active = None
    for ln in out.splitlines():
        m = re.match(r'^(?:Thread (\d+): )?Checking harness ([^\s]+?)\.\.\.\s*$', ln)
        if m:
            th = m.group(1)
            name = m.group(2).split('::')[-1]
            cur[th] = name
            bodies.setdefault(name, [])
            if th is None:
                active = None
            continue
        m = re.match(r'^Thread (\d+):\s*(.*)$', ln)
        if m:
            active = m.group(1)
            if m.group(2) and cur.get(active):
                bodies[cur[active]].append(m.group(2))
            continue
        name = cur.get(active)
        if name:
            bodies[name].append(ln)
    res = {}
    for name, lines in bodies.items():
        body = '\n'.join(lines)
        m = RES_RE.search(body)
        failed = re.findall(r'Failed Checks: (.*)', body)
        tm = re.search(r'Verification Time: ([0-9.]+)s', body)
        cov = re.search(r'(\d+) of (\d+) cover properties satisfied', body)
        res[name] = {'verdict': m.group(1) if m else None, 'failed_checks': failed, 'time_s': float(tm.group(1)) if tm else None,
                     'body': body[-3000:], 'covers': (int(cov.group(1)), int(cov.group(2))) if cov else None}
    return res


def run_group(entry, repo='/repo', tier='quick', seed=0):
    """entry: dict(group=..., harnesses=[names]|absent => all of the group)."""
    t0 = time.time()
    cfg = load_harnesses()
    grp = cfg['group'][entry['group']]
    hs = [h for h in grp['harness'] if (h.get('tier', 'quick') == 'quick' or tier == 'thorough')]
    if entry.get('harnesses'):
        hs = [h for h in hs if h['name'] in entry['harnesses']]
    package = grp.get('package', 'profirust')
    out = {'status': 'ok', 'harnesses': [], 'functions': [], 'assumptions': list(grp.get('assumptions', [])), 'wall_s': 0, 'cmd': ''}
    if not hs:
        out['status'] = 'inconclusive'
        out['reason'] = 'vacuity: no harness selected'
        return out
    dest = tempfile.mkdtemp(prefix='verif-kani-')
    try:
        try:
            r1 = prepare(repo, dest, grp['modules'], package)
        except Exception as e:
            out['status'] = 'inconclusive'
            out['reason'] = 'tool-error: scratch copy: %r' % (e,)
            return out
        env = dict(os.environ, CARGO_NET_OFFLINE='true')
        env.pop('RUSTFLAGS', None)
        if tier == 'thorough':
            env['RUSTFLAGS'] = entry.get('rustflags_thorough', '--cfg verif_thorough')
        jobs = str(min(len(hs), int(grp.get('jobs', 8))))
        cmd = ['cargo', 'kani', '-Z', 'function-contracts', '-Z', 'stubbing', '-Z', 'unstable-options', '-j', jobs,
               '--output-format', 'terse']
        if package == 'profirust':
            cmd += ['--no-default-features', '--features', 'std']
        for h in hs:
            cmd += ['--harness', h['name']]
        cwd = dest if package == 'profirust' else os.path.join(dest, 'gsd-parser')
        out['cmd'] = ' '.join(cmd) + '   (in a scratch copy of %s with /verif/kani/{%s}.rs attached, R1 applied %d times)' % (repo, ','.join(grp['modules']), r1)
        timeout = int(grp.get('timeout_s', 1500))
        try:
            p = subprocess.run(cmd, cwd=cwd, env=env, capture_output=True, text=True, timeout=timeout)
            text = p.stdout + '\n' + p.stderr
        except subprocess.TimeoutExpired as e:
            text = (e.stdout or b'').decode(errors='replace') if isinstance(e.stdout, bytes) else (e.stdout or '')
            text += '\nTIMEOUT'
        res = parse_output(text)
        build_failed = ('error: could not compile' in text or 'error[E' in text) and not res
        skipped = []
        for _attempt in range(4):
            if not build_failed:
                break
            # which harnesses do the compile errors sit in?
            bad = set()
            unmapped = False
            # only locations of error diagnostics count (warnings in helper functions are not build failures)
            err_text = '\n'.join(b for b in re.split(r'(?m)^(?=(?:error|warning)(?:\[\w+\])?:)', text) if b.startswith('error'))
            for mm in re.finditer(r'-->\s*(\S*\.verif-kani/(\w+)\.rs):(\d+):', err_text):
                lines = open(mm.group(1)).read().split('\n')
                ln = int(mm.group(3)) - 1
                name = None
                for j in range(ln, -1, -1):
                    m2 = re.match(r'^#\[cfg\(not\(verif_skip_(\w+)\)\)\]', lines[j])
                    if m2:
                        name = m2.group(1)
                        break
                    if re.match(r'^(pub(\(crate\))? )?(fn|struct|impl|static|const|macro_rules)', lines[j]) and j != ln and not lines[j].startswith('fn ' ) :
                        break
                    if re.match(r'^fn \w+', lines[j]) and j < ln:
                        # a top-level fn: harness fns carry the cfg line right above their attributes
                        k = j - 1
                        while k >= 0 and lines[k].startswith('#['):
                            m3 = re.match(r'^#\[cfg\(not\(verif_skip_(\w+)\)\)\]', lines[k])
                            if m3:
                                name = m3.group(1)
                            k -= 1
                        break
                if name:
                    bad.add(name)
                else:
                    unmapped = True
            bad -= set(skipped)
            if not bad or unmapped:
                break
            skipped += sorted(bad)
            env['RUSTFLAGS'] = (env.get('RUSTFLAGS', '') + ' ' + ' '.join('--cfg verif_skip_%s' % b for b in bad)).strip()
            cmd = [c for c in cmd]
            # drop the skipped harnesses from the command line
            keep = []
            i_ = 0
            while i_ < len(cmd):
                if cmd[i_] == '--harness' and cmd[i_ + 1] in bad:
                    i_ += 2
                    continue
                keep.append(cmd[i_])
                i_ += 1
            cmd = keep
            if '--harness' not in cmd:
                break
            try:
                p = subprocess.run(cmd, cwd=cwd, env=env, capture_output=True, text=True, timeout=timeout)
                text = p.stdout + '\n' + p.stderr
            except subprocess.TimeoutExpired:
                text = 'TIMEOUT'
            res = parse_output(text)
            build_failed = ('error: could not compile' in text or 'error[E' in text) and not res
        if build_failed:
            out['status'] = 'inconclusive'
            errs = re.findall(r'error(?:\[E\d+\])?: .*', text)
            out['reason'] = 'tool-error: kani build failed: ' + ' | '.join(errs[:4])
        for h in hs:
            r = res.get(h['name'])
            ob = {'name': h['name'], 'obligation': h['obligation'], 'function': h.get('function', ''), 'text': h.get('text', ''),
                  'complete': bool(h.get('complete', False)), 'bounds': h.get('bounds'), 'time_s': r['time_s'] if r else None}
            if build_failed or r is None or r['verdict'] is None:
                ob['status'] = 'undecided'
                ob['detail'] = 'harness no longer compiles against this tree (lost anchor)' if h['name'] in skipped else 'no verdict (build failure, timeout or resource limit)'
                out['status'] = 'inconclusive'
                out.setdefault('reason', 'kani produced no verdict for %s' % h['name'])
            elif r['verdict'] == 'SUCCESSFUL':
                ob['status'] = 'discharged'
                ob['checks'] = r.get('covers')
                if r.get('covers') and r['covers'][0] < r['covers'][1]:
                    # vacuity guard: a cover on the interesting branch of the postcondition is unreachable
                    ob['status'] = 'undecided'
                    ob['detail'] = 'vacuity: only %d of %d cover properties satisfied' % r['covers']
                    out['status'] = 'inconclusive'
                    out['reason'] = ob['detail']
            else:
                only_unwind = r['failed_checks'] and all('unwinding assertion' in f for f in r['failed_checks'])
                if only_unwind and not h.get('unwind_is_obligation'):
                    ob['status'] = 'undecided'
                    ob['detail'] = 'unwinding bound too small: ' + '; '.join(r['failed_checks'][:3])
                    out['status'] = 'inconclusive'
                    out['reason'] = ob['detail']
                else:
                    ob['status'] = 'refuted'
                    ob['detail'] = '; '.join(r['failed_checks'][:6]) or 'verification failed'
                    ob['rendered'] = r['body']
            out['harnesses'].append(ob)
            if h.get('function'):
                out['functions'].append({'function': h['function'], 'repo': h.get('repo', ''), 'engine': 'kani', 'unit': entry['group'],
                                         'contracted': True, 'complete': bool(h.get('complete', False)), 'bounds': h.get('bounds')})
        # concrete playback for refuted harnesses (the replay against the real code); in parallel, fastest first
        def playback(ob):
            cmd2 = ['cargo', 'kani', '-Z', 'function-contracts', '-Z', 'stubbing', '-Z', 'unstable-options', '-Z', 'concrete-playback',
                    '--concrete-playback=print', '--output-format', 'terse', '--harness', ob['name']]
            if package == 'profirust':
                cmd2 += ['--no-default-features', '--features', 'std']
            try:
                p2 = subprocess.run(cmd2, cwd=cwd, env=env, capture_output=True, text=True, timeout=timeout)
                m = re.search(r'(#\[test\]\s*fn kani_concrete_playback.*?\n\}\n)', p2.stdout, re.S)
                if m:
                    ob['playback'] = m.group(1)
            except subprocess.TimeoutExpired:
                pass
        ref = sorted([ob for ob in out['harnesses'] if ob['status'] == 'refuted'], key=lambda o: o.get('time_s') or 0)
        if ref:
            import concurrent.futures as _cf
            with _cf.ThreadPoolExecutor(max_workers=4) as ex:
                list(ex.map(playback, ref))
        out['wall_s'] = time.time() - t0
        return out
    finally:
        shutil.rmtree(dest, ignore_errors=True)


if __name__ == '__main__':
    import json
    e = {'group': sys.argv[1]}
    if len(sys.argv) > 2:
        e['harnesses'] = sys.argv[2:]
    r = run_group(e, os.environ.get('VERIF_REPO', '/repo'), os.environ.get('VERIF_TIER', 'quick'))
    for h in r['harnesses']:
        print('%-12s %-34s %-28s %s %s' % (h['status'], h['name'], h['obligation'], h.get('time_s'), h.get('detail', '')))
        if h.get('playback'):
            print(h['playback'])
    print('status', r['status'], r.get('reason', ''), 'wall %.1fs' % r['wall_s'])
    if os.environ.get('VERIF_VERBOSE'):
        for h in r['harnesses']:
            print(h.get('rendered', ''))
