#!/usr/bin/env python3
"""Confirm a seeded change independently of the agent that wrote it, in a scratch worktree:
   1. patch applies to HEAD of /repo, workspace builds, full existing suite passes with it;
   2. the demonstration fails with the patch and passes without it.
usage: seed_confirm.py <seed_dir> [<seed_dir> ...]     (seed_dir contains patch.diff, demo.diff)
Writes <seed_dir>/confirm.json.  Scratch worktree and target dir are removed afterwards.
"""
import json
import os
import re
import subprocess
import sys
import shutil

_SFX = os.environ.get('SEED_CONFIRM_SLOT', '')
WT = '/tmp/seed-confirm-wt' + _SFX
TGT = '/tmp/seed-confirm-target' + _SFX


def sh(cmd, cwd=None, timeout=1800):
    env = dict(os.environ, CARGO_TARGET_DIR=TGT, CARGO_NET_OFFLINE='true')
    p = subprocess.run(cmd, shell=True, cwd=cwd, capture_output=True, text=True, timeout=timeout, env=env)
    return p.returncode, p.stdout + p.stderr


def demo_cmds(demo_diff):
    txt = open(demo_diff).read()
    cmds = []
    files = re.findall(r'^\+\+\+ b/(\S+)', txt, re.M)
    for f in files:
        m = re.match(r'^(gsd-parser/|gsdtool/)?tests/(\w+)\.rs$', f)
        if m:
            pkg = {'gsd-parser/': '-p gsd-parser', 'gsdtool/': '-p gsdtool', None: '-p profirust'}[m.group(1)]
            cmds.append('cargo test --offline %s --test %s' % (pkg, m.group(2)))
    if not cmds:
        # tests added to a source file: collect #[test] fn names from added lines
        names = []
        lines = txt.splitlines()
        for i, ln in enumerate(lines):
            if ln.startswith('+') and re.search(r'#\[(test|rstest|rstest::rstest)\]', ln):
                for j in range(i + 1, min(i + 14, len(lines))):
                    m = re.search(r'fn\s+(\w+)\s*\(', lines[j])
                    if m:
                        names.append(m.group(1))
                        break
        pkg = '-p gsd-parser' if any(f.startswith('gsd-parser/') for f in files) else '-p profirust'
        for nm in names:
            cmds.append('cargo test --offline %s --lib %s' % (pkg, nm))
    return cmds


def suite_ok(out):
    res = re.findall(r'^test result: (\w+)\. (\d+) passed; (\d+) failed', out, re.M)
    return bool(res) and all(r[0] == 'ok' for r in res), sum(int(r[1]) for r in res), sum(int(r[2]) for r in res)


def confirm(seed):
    r = {'seed': seed}
    patch, demo = os.path.join(seed, 'patch.diff'), os.path.join(seed, 'demo.diff')
    sh('git -C /repo worktree remove --force %s' % WT)
    shutil.rmtree(WT, ignore_errors=True)
    rc, out = sh('git -C /repo worktree add --detach %s HEAD -q' % WT)
    if rc:
        r['error'] = out
        return r
    try:
        shutil.copy('/repo/Cargo.lock', WT + '/Cargo.lock')
        rc, out = sh('git apply %s' % patch, cwd=WT)
        r['patch_applies'] = rc == 0
        if rc:
            r['error'] = out[-500:]
            return r
        rc, out = sh('cargo test --workspace --no-fail-fast --offline', cwd=WT)
        ok, passed, failed = suite_ok(out)
        r['suite_with_patch'] = {'ok': ok and rc == 0, 'passed': passed, 'failed': failed}
        if not (ok and rc == 0):
            r['suite_tail'] = out[-1500:]
        rc, out = sh('git apply %s' % demo, cwd=WT)
        r['demo_applies'] = rc == 0
        if rc:
            r['error'] = out[-500:]
            return r
        cmds = demo_cmds(demo)
        r['demo_cmds'] = cmds
        fails_with = False
        for c in cmds:
            rc, out = sh(c, cwd=WT)
            if rc != 0 and re.search(r'test result: FAILED|panicked|FAILED', out):
                fails_with = True
                r['demo_with_patch_tail'] = out[-800:]
        r['demo_fails_with_patch'] = fails_with
        sh('git apply -R %s' % patch, cwd=WT)
        passes_without = bool(cmds)
        for c in cmds:
            rc, out = sh(c, cwd=WT)
            if rc != 0:
                passes_without = False
                r['demo_without_patch_tail'] = out[-800:]
        r['demo_passes_without_patch'] = passes_without
        r['confirmed'] = bool(r['suite_with_patch']['ok'] and fails_with and passes_without)
        return r
    finally:
        sh('git -C /repo worktree remove --force %s' % WT)
        shutil.rmtree(WT, ignore_errors=True)


if __name__ == '__main__':
    for seed in sys.argv[1:]:
        res = confirm(seed.rstrip('/'))
        res['head'] = subprocess.run('git -C /repo rev-parse --short HEAD', shell=True, capture_output=True, text=True).stdout.strip()
        json.dump(res, open(os.path.join(seed, 'confirm.json'), 'w'), indent=1)
        print(seed, 'confirmed' if res.get('confirmed') else 'NOT CONFIRMED', json.dumps({k: v for k, v in res.items() if 'tail' not in k}))
    shutil.rmtree(TGT, ignore_errors=True)
