#!/usr/bin/env python3
"""Regenerate MANIFEST.json from checks.toml (claimed properties) and manifest_static.toml."""
import json, os, tomllib
V = os.path.dirname(os.path.dirname(os.path.abspath(__file__)))
cfg = tomllib.load(open(os.path.join(V, 'checks.toml'), 'rb'))
st = tomllib.load(open(os.path.join(V, 'manifest_static.toml'), 'rb'))
props = [json.loads(l)['id'] for l in open(os.path.join(V, 'properties.jsonl')) if l.strip()]
checks = []
for pid in props:
    if pid not in cfg:
        continue
    c = cfg[pid]
    engines = sorted({'verus' for _ in c.get('verus', [])} | {'kani' for _ in c.get('kani', [])})
    checks.append({
        'property_id': pid,
        'quick_cmd': './check %s quick' % pid,
        'thorough_cmd': './check %s thorough' % pid,
        'evidence_file': '/verif/evidence/%s.json' % pid,
        'replay_cmd_template': './check %s --replay {path}' % pid,
        'engine': '+'.join(engines),
        'level_claimed': {'category': c.get('level', 'proof'), 'text': c['level_text'], 'design_ref': c.get('design_ref', 'DESIGN.md section 6 / ' + pid)},
        'level_note': c['level_note'],
        'technique': c.get('technique', 'contract-based deductive verification (Verus on mechanically extracted functions' + (', Kani function-level contracts' if 'kani' in engines else '') + ')'),
    })
na = [{'property_id': p, 'reason': st['not_applicable'][p]} for p in props if p not in cfg]
for p in props:
    if p not in cfg and p not in st['not_applicable']:
        raise SystemExit('property %s neither claimed nor in not_applicable' % p)
serves = {'verus-units': [p for p in props if p in cfg and cfg[p].get('verus')],
          'kani-contracts': [p for p in props if p in cfg and cfg[p].get('kani')],
          'native-replay': [p for p in props if p in cfg and (cfg[p].get('native') or cfg[p].get('witness'))]}
for e in st['engines']:
    e['serves_properties'] = serves.get(e['name'], e.get('serves_properties', []))
m = {'version': 1, 'setup_cmd': st['setup_cmd'], 'hooks': st['hooks'], 'engines': st['engines'], 'checks': checks,
     'notes': st['notes'], 'not_applicable': na}
json.dump(m, open(os.path.join(V, 'MANIFEST.json'), 'w'), indent=1)
print('MANIFEST.json: %d claimed, %d not applicable' % (len(checks), len(na)))
