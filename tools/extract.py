"""Mechanical extraction of /repo items into one Verus file per unit.

Reads units/<unit>/unit.toml, copies the named items verbatim from the working tree of
/repo, applies the rewrite rules of DESIGN.md section 3.1 (every application counted),
splices the contracts of units/<unit>/contracts.toml and records a source map
(generated line -> repo file:line | contract clause label).

Nothing in here contains repository code: all code text in the output comes from /repo at
run time; specs/contracts come from /verif/units.
"""
import os
import re
import sys
import tomllib
import hashlib
from dataclasses import dataclass, field

sys.path.insert(0, os.path.dirname(__file__))
import rsx  # noqa: E402


class LostAnchor(Exception):
    pass


@dataclass
class Chunk:
    """A piece of generated text that came from one repo item."""
    file: str
    first_line: int            # 1-based repo line of first line of text
    text: str
    name: str                  # e.g. "impl FdlActiveStation :: next_gap_poll"
    impl_header: str = ''
    auto: bool = False         # pulled in automatically (referenced helper that is not listed in unit.toml)


@dataclass
class GenUnit:
    name: str
    text: str = ''
    # per generated line (1-based index-1): dict(kind='repo', file, line) | dict(kind='clause', fn, label, clause) | None
    linemap: list = field(default_factory=list)
    rule_counts: dict = field(default_factory=dict)
    functions: list = field(default_factory=list)     # dict(name, file, line, sha, contracted)
    clauses: list = field(default_factory=list)       # dict(fn, label, kind, text)
    proof_fns: list = field(default_factory=list)     # names of proof fns in spec.rs
    assumptions: list = field(default_factory=list)   # scanned external_body / assume_specification / axiom
    spec_lines: int = 0
    auto_items: list = field(default_factory=list)    # items pulled in by dependency closure (R14)


DERIVE_KEEP = ['Clone', 'Copy', 'PartialEq', 'Eq']
ATTR_DROP = re.compile(r'^#\s*\[\s*(cfg_attr\s*\(\s*test|expect|inline|must_use|default|doc|non_exhaustive|track_caller|allow|deny)\b')


def _blank_keep_newlines(s):
    return ''.join(ch if ch == '\n' else ' ' for ch in s)


def _count(counts, rule, n=1):
    counts[rule] = counts.get(rule, 0) + n


def strip_docs_and_attrs(text, counts, derive_drop_all=False, derive_keep=DERIVE_KEEP):
    """R5 / R11: remove doc comments and non-executable attributes, reduce derive lists."""
    toks = rsx.lex(text)
    out = []
    last = 0
    i = 0
    n = len(toks)
    while i < n:
        t = toks[i]
        if t.kind == 'doc':
            out.append(text[last:t.start])
            out.append(_blank_keep_newlines(t.text))
            last = t.end
            _count(counts, 'R5.doc')
            i += 1
            continue
        if t.kind == 'punct' and t.text == '#' and i + 1 < n and toks[i + 1].text in ('[', '!'):
            k = i + 1
            if toks[k].text == '!':
                k += 1
            if k < n and toks[k].text == '[':
                c = rsx.match_close(toks, k)
                attr = text[t.start:toks[c].end]
                inner = re.sub(r'\s+', ' ', attr)
                repl = None
                if ATTR_DROP.match(inner):
                    repl = _blank_keep_newlines(attr)
                    _count(counts, 'R5.attr')
                else:
                    m = re.match(r'^#\s*\[\s*derive\s*\((.*)\)\s*\]$', inner, re.S)
                    if m:
                        names = [x.strip() for x in m.group(1).split(',') if x.strip()]
                        keep = [x for x in derive_keep if x in names or ('core::cmp::' + x) in names]
                        if derive_drop_all or not keep:
                            new = ''
                        else:
                            new = '#[derive(' + ', '.join(keep) + ')]'
                        repl = new + _blank_keep_newlines(attr)[len(new):] if len(new) <= len(attr) else new
                        # keep newline count
                        missing = attr.count('\n') - repl.count('\n')
                        if missing > 0:
                            repl += '\n' * missing
                        _count(counts, 'R11.derive')
                if repl is not None:
                    out.append(text[last:t.start])
                    out.append(repl)
                    last = toks[c].end
                i = c + 1
                continue
        i += 1
    out.append(text[last:])
    return ''.join(out)


def _pad(repl, orig):
    missing = orig.count('\n') - repl.count('\n')
    if missing < 0:
        raise ValueError('rewrite adds lines: %r' % repl)
    return repl + '\n' * missing


LOG_NAMES = {'log::trace', 'log::debug', 'log::info', 'log::warn', 'log::error'}
ASSERT_NAMES = {'assert', 'debug_assert', 'debug_assert_eq', 'debug_assert_ne', 'assert_eq', 'assert_ne',
                'debug_assert_state'}
PANIC_NAMES = {'unreachable', 'panic', 'todo', 'unimplemented'}


def _strip_named(arg):
    m = re.match(r'^[A-Za-z_][A-Za-z0-9_]*\s*=(?!=)\s*(.*)$', arg, re.S)
    return m.group(1) if m else arg


def rewrite_macros(text, counts, mode='verus'):
    """R1, R2, R3 on macro invocations. mode 'verus' or 'kani' (kani: only R1)."""
    names = set(LOG_NAMES)
    if mode == 'verus':
        names |= ASSERT_NAMES | PANIC_NAMES
    # iterate until no more (macros can nest: assert!(matches!(..)) is fine, we only rewrite the outer names)
    calls = rsx.find_macro_calls(text, names)
    if not calls:
        return text
    out = []
    last = 0
    for (s, e, path, args) in calls:
        if s < last:
            continue
        orig = text[s:e]
        base = path.split('::')[-1]
        if path in LOG_NAMES:
            parts = rsx.split_args(args)
            # optional `target: "x",` first arg
            vals = [_strip_named(p) for p in parts[1:]] if parts else []
            if parts and parts[0].startswith('target:'):
                vals = [_strip_named(p) for p in parts[2:]]
            if mode == 'verus':
                body = ' '.join('verif_log(&(%s));' % rewrite_macros(v, counts, mode) for v in vals)
            else:
                body = ' '.join('let _ = &(%s);' % v for v in vals)
            repl = '{ ' + body + ' }'
            _count(counts, 'R1.log')
        elif base in PANIC_NAMES and path == base:
            repl = 'verif_unreachable()'
            _count(counts, 'R3.panic')
        elif base in ASSERT_NAMES and path == base:
            parts = rsx.split_args(args)
            if base in ('assert', 'debug_assert'):
                cond = parts[0]
            elif base.endswith('_eq'):
                cond = '(%s) == (%s)' % (parts[0], parts[1])
            elif base.endswith('_ne'):
                cond = '(%s) != (%s)' % (parts[0], parts[1])
            else:  # debug_assert_state!(s, pat)
                cond = 'matches!(%s, %s)' % (parts[0], ', '.join(parts[1:]))
            repl = 'verif_assert(%s)' % re.sub(r'\s+', ' ', cond)
            _count(counts, 'R2.assert')
        else:
            continue
        out.append(text[last:s])
        out.append(_pad(re.sub(r'\s*\n\s*', ' ', repl), orig))
        last = e
    out.append(text[last:])
    return ''.join(out)


PATH_RE = re.compile(r'\b(?:crate|super)::(?:[a-z_][a-z0-9_]*::)*')


def rewrite_paths(text, counts):
    """R4: drop crate-internal module paths (single-file crate)."""
    def f(m):
        _count(counts, 'R4.path')
        return ''
    return PATH_RE.sub(f, text)


def rewrite_closure_params(text, counts):
    """R10: `|_|` -> `|_p|`;  `|(a, b)| e` -> `|__p| { let (a, b) = __p; e }`."""
    def f(m):
        _count(counts, 'R10.closure')
        return '|_p|'
    text = re.sub(r'\|\s*_\s*\|', f, text)
    while True:
        toks = rsx.code_toks(rsx.lex(text))
        hit = None
        for i, t in enumerate(toks):
            if t.text == '|' and i + 1 < len(toks) and toks[i + 1].text == '(' and (i == 0 or toks[i - 1].text in ('(', ',', '=', '{')):
                c = rsx.match_close(toks, i + 1)
                if c + 1 < len(toks) and toks[c + 1].text == '|':
                    hit = (i, c)
                    break
        if not hit:
            return text
        i, c = hit
        pat = text[toks[i + 1].start:toks[c].end]
        b = c + 2
        if toks[b].text == '{':
            e = rsx.match_close(toks, b)
            body_s, body_e = toks[b].start, toks[e].end
        else:
            depth = 0
            j = b
            while j < len(toks):
                tt = toks[j]
                if tt.kind == 'punct':
                    if tt.text in rsx.OPEN:
                        depth += 1
                    elif tt.text in rsx.CLOSE:
                        if depth == 0:
                            break
                        depth -= 1
                    elif tt.text == ',' and depth == 0:
                        break
                j += 1
            body_s, body_e = toks[b].start, toks[j - 1].end
        body = text[body_s:body_e]
        _count(counts, 'R10.closure')
        text = text[:toks[i].start] + '|__p| { let %s = __p; %s }' % (pat, body) + text[body_e:]


def make_pub(text, counts):
    """R12: private fields / items become pub (only at the start of a line's code)."""
    return text


def apply_user_rewrites(text, rewrites, counts, chunk_name):
    for rw in rewrites:
        only = rw.get('only')
        if only and not any(o in chunk_name for o in only):
            continue
        pat = re.compile(rw['pattern'], re.S)
        rid = rw.get('rule', 'R8') + '.' + rw.get('id', rw['pattern'][:20])

        def f(m, rw=rw, rid=rid):
            _count(counts, rid)
            return _pad(m.expand(rw['replace']), m.group(0))
        text = pat.sub(f, text)
    return text


def load_unit(unit_dir):
    with open(os.path.join(unit_dir, 'unit.toml'), 'rb') as f:
        u = tomllib.load(f)
    for inc in u.get('include', []):
        with open(os.path.join(unit_dir, inc), 'rb') as f:
            sub = tomllib.load(f)
        u.setdefault('source', [])
        u['source'] = sub.get('source', []) + u['source']
        u['rewrite'] = sub.get('rewrite', []) + u.get('rewrite', [])
        u['derive_drop_all'] = sub.get('derive_drop_all', []) + u.get('derive_drop_all', [])
    cpath = os.path.join(unit_dir, 'contracts.toml')
    contracts = {}
    if os.path.exists(cpath):
        with open(cpath, 'rb') as f:
            c = tomllib.load(f)
        for inc in c.get('include', []):
            with open(os.path.join(unit_dir, inc), 'rb') as f2:
                c2 = tomllib.load(f2)
            for fn in c2.get('fn', []):
                if c.get('include_as_proved'):
                    fn = dict(fn)
                    fn['proved_in'] = c['include_as_proved']
                contracts[norm_item(fn['item'])] = fn
        for fn in c.get('fn', []):
            contracts[norm_item(fn['item'])] = fn
    u['_contracts'] = contracts
    spath = os.path.join(unit_dir, 'spec.rs')
    spec = open(spath).read() if os.path.exists(spath) else ''

    def inc(m):
        return open(os.path.join(unit_dir, m.group(1).strip())).read()
    for _ in range(3):
        spec = re.sub(r'(?m)^//@include\s+(\S+)\s*$', inc, spec)
    u['_spec'] = spec
    return u


def norm_item(s):
    return re.sub(r'\s+', ' ', s).strip()


def parse_clauses(text):
    """'@label expr ...' blocks -> [(label, expr)]"""
    out = []
    if not text:
        return out
    cur = None
    for line in text.splitlines():
        m = re.match(r'^\s*@(\S+)\s*(.*)$', line)
        if m:
            if cur:
                out.append(cur)
            cur = [m.group(1), m.group(2)]
        elif cur is not None and line.strip():
            cur[1] += '\n' + line
    if cur:
        out.append(cur)
    return [(a, b.strip().rstrip(',')) for a, b in out]


def _line_of(src, off):
    return src.count('\n', 0, off) + 1


def extract_chunks(unit, repo):
    chunks = []
    for srcspec in unit.get('source', []):
        path = os.path.join(repo, srcspec['file'])
        if not os.path.exists(path):
            raise LostAnchor('file not found: ' + srcspec['file'])
        src = open(path).read()
        toks = rsx.lex(src)
        top = rsx.find_items(src, toks=toks)
        for spec in srcspec['items']:
            spec_n = norm_item(spec)
            n_before = len(chunks)
            if '::' in spec_n and spec_n.split(' ', 1)[0] in ('impl', 'trait'):
                head, fns = spec_n.split(' :: ', 1)
                kind, header = head.split(' ', 1)
                want = [x.strip() for x in fns.split(',')]
                blocks = [it for it in top if it.kind == kind and it.name == header]
                if not blocks:
                    raise LostAnchor('%s: no `%s %s`' % (srcspec['file'], kind, header))
                found = {}
                for b in blocks:
                    for sub in rsx.find_items(src, b.body_open + 1, b.body_close, toks=toks):
                        if sub.kind in ('fn', 'const', 'type'):
                            found.setdefault(sub.name, sub)
                names = list(found.keys()) if want == ['*'] else want
                excl = {w[1:] for w in want if w.startswith('!')}
                if excl:
                    names = [x for x in found.keys() if x not in excl]
                for nm in names:
                    if nm not in found:
                        raise LostAnchor('%s: no fn `%s` in `%s %s`' % (srcspec['file'], nm, kind, header))
                    it = found[nm]
                    chunks.append(Chunk(srcspec['file'], _line_of(src, it.start), src[it.start:it.end],
                                        '%s %s :: %s' % (kind, header, nm), impl_header=('impl ' + header) if kind == 'impl' else ''))
            else:
                kind, name = spec_n.split(' ', 1)
                its = [it for it in top if it.kind == kind and it.name == name]
                if not its:
                    raise LostAnchor('%s: no `%s`' % (srcspec['file'], spec_n))
                it = its[0]
                chunks.append(Chunk(srcspec['file'], _line_of(src, it.start), src[it.start:it.end], spec_n))
            if srcspec.get('auto'):
                for c_ in chunks[n_before:]:
                    c_.auto = True
    return chunks


def splice_contract(chunk_text, contract, fn_label):
    """R6/R7. Returns list of (line_text, origin) where origin is ('repo', offset_line) or ('clause', label, text)."""
    toks = rsx.code_toks(rsx.lex(chunk_text))
    # locate fn keyword, params, return type, where, body
    idx = next(i for i, t in enumerate(toks) if t.kind == 'ident' and t.text == 'fn')
    # params: first '(' after fn name (skip generics)
    j = idx + 2
    if toks[j].text == '<':
        depth = 0
        while True:
            if toks[j].text == '<':
                depth += 1
            elif toks[j].text == '>' and toks[j - 1].text != '-':
                depth -= 1
                if depth == 0:
                    j += 1
                    break
            j += 1
    assert toks[j].text == '(', 'expected ( in ' + fn_label
    pc = rsx.match_close(toks, j)
    # body: first '{' at depth 0 after params
    k = pc + 1
    where_idx = None
    arrow_idx = None
    while toks[k].text != '{':
        if toks[k].text in ('(', '['):
            k = rsx.match_close(toks, k) + 1
            continue
        if toks[k].kind == 'ident' and toks[k].text == 'where' and where_idx is None:
            where_idx = k
        if toks[k].text == '-' and toks[k + 1].text == '>' and arrow_idx is None:
            arrow_idx = k
        k += 1
    body_open = k
    body_close = rsx.match_close(toks, body_open)
    edits = []  # (start, end, replacement_lines_or_text)
    ret = contract.get('ret', 'r')
    ret_end = toks[where_idx].start if where_idx is not None else toks[body_open].start
    if arrow_idx is not None:
        rs = toks[arrow_idx + 1].end
        rtype = chunk_text[rs:ret_end]
        new = ' (%s: %s)' % (ret, rtype.strip())
        new += ' ' if where_idx is not None else ''
        edits.append((rs, ret_end, _pad(new, rtype)))
    clause_lines = []
    for kind in ('requires', 'ensures'):
        cl = parse_clauses(contract.get(kind, ''))
        if not cl:
            continue
        clause_lines.append(('    ' + kind, None))
        for label, expr in cl:
            elines = expr.split('\n')
            for n_, el in enumerate(elines):
                txt = '        ' + el.strip() + (',' if n_ == len(elines) - 1 else '')
                clause_lines.append((txt, ('clause', kind, label, expr)))
    if contract.get('decreases'):
        clause_lines.append(('    decreases ' + contract['decreases'] + ',', ('clause', 'decreases', 'decreases', contract['decreases'])))
    if contract.get('no_unwind', False):
        pass
    edits.append((toks[body_open].start, toks[body_open].start, clause_lines))
    if contract.get('_vacuity_probe'):
        # vacuity variant only: the function entry must be reachable under the precondition
        edits.append((toks[body_open].end, toks[body_open].end,
                      [('    proof { assert(false); }', ('clause', 'ensures', contract['_vacuity_probe'], 'entry reachable under the precondition (assert false must fail)'))]))
    # loops
    loops = contract.get('loop', [])
    if loops:
        body_toks = [(i, t) for i, t in enumerate(toks) if body_open < i < body_close]
        loop_idx = [i for i, t in body_toks if t.kind == 'ident' and t.text in ('loop', 'while', 'for')
                    and not (toks[i - 1].kind == 'life' or toks[i - 1].text == '.')]
        # `for` in `for<'a>` HRTB not expected in bodies
        for lp in loops:
            n = lp['index']
            if n >= len(loop_idx):
                raise LostAnchor('%s: loop #%d not found' % (fn_label, n))
            li = loop_idx[n]
            m = li + 1
            while toks[m].text != '{':
                if toks[m].text in ('(', '['):
                    m = rsx.match_close(toks, m) + 1
                    continue
                m += 1
            llines = []
            if lp.get('iter_name'):
                # `for x in EXPR` -> `for x in NAME: EXPR` (names the ghost iterator so that invariants can mention it)
                q = li + 1
                while not (toks[q].kind == 'ident' and toks[q].text == 'in'):
                    q += 1
                edits.append((toks[q].end, toks[q].end, ' %s:' % lp['iter_name']))
            inv = parse_clauses(lp.get('invariant', ''))
            if inv:
                llines.append(('        invariant', None))
                for label, expr in inv:
                    elines = expr.split('\n')
                    for n_, el in enumerate(elines):
                        llines.append(('            ' + el.strip() + (',' if n_ == len(elines) - 1 else ''),
                                       ('clause', 'invariant', label, expr)))
            if lp.get('ensures'):
                llines.append(('        ensures', None))
                for label, expr in parse_clauses(lp['ensures']):
                    llines.append(('            ' + expr.replace('\n', ' ') + ',', ('clause', 'loop_ensures', label, expr)))
            if lp.get('decreases'):
                llines.append(('        decreases ' + lp['decreases'] + ',', ('clause', 'decreases', 'loop%d.decreases' % n, lp['decreases'])))
            edits.append((toks[m].start, toks[m].start, llines))
    # body prologue (proof hints are avoided by design; allowed only for `broadcast use` style lines)
    # apply edits back to front, tracking lines
    edits.sort(key=lambda e: e[0])
    pieces = []  # list of ('text', str) | ('lines', [...])
    last = 0
    for s, e, rep in edits:
        pieces.append(('text', chunk_text[last:s]))
        if isinstance(rep, str):
            pieces.append(('text', rep))
        else:
            pieces.append(('lines', rep))
        last = e
    pieces.append(('text', chunk_text[last:]))
    # now produce lines with origin; repo line offset advances only on newlines of 'text' pieces
    out = []
    cur = ''
    off = 0
    for kind, val in pieces:
        if kind == 'text':
            parts = val.split('\n')
            for pi, p in enumerate(parts):
                cur += p
                if pi < len(parts) - 1:
                    out.append((cur, ('repo', off)))
                    cur = ''
                    off += 1
        else:
            if val:
                out.append((cur, ('repo', off)))
                cur = ''
                for txt, origin in val:
                    out.append((txt, origin))
    out.append((cur, ('repo', off)))
    return out


def locate_item(unit, repo, name, type_hint=None):
    """Find an item called `name` in the unit's source files (top level, or fn/const inside an impl).
    Returns (file, itemspec) or None."""
    files = []
    for s_ in unit.get('source', []):
        if s_['file'] not in files:
            files.append(s_['file'])
    for extra in unit.get('auto_search', []):
        if extra not in files:
            files.append(extra)
    for f in files:
        path = os.path.join(repo, f)
        if not os.path.exists(path):
            continue
        src = open(path).read()
        toks = rsx.lex(src)
        top = rsx.find_items(src, toks=toks)
        for it in top:
            if it.kind in ('fn', 'const', 'static', 'struct', 'enum', 'type') and it.name == name:
                return (f, '%s %s' % (it.kind, name))
        for it in top:
            if it.kind == 'impl' and it.body_open >= 0 and ' for ' not in it.name:
                if type_hint and type_hint not in it.name:
                    continue
                for sub in rsx.find_items(src, it.body_open + 1, it.body_close, toks=toks):
                    if sub.kind in ('fn', 'const') and sub.name == name:
                        return (f, 'impl %s :: %s' % (it.name, name))
    return None


EXPR_ONLY_BAD = re.compile(r';|\blet\b|\breturn\b|\bloop\b|\bwhile\b|\bfor\b|&\s*mut\b|\?|\bunsafe\b')


def autospec_for(text, key):
    """R14: for an auto-included helper whose body is a single expression, derive
    `spec fn <name>__autospec` from the same body text and the contract `ensures r == <name>__autospec(args)`.
    Returns (spec_fn_text, contract_dict) or None."""
    toks = rsx.code_toks(rsx.lex(text))
    try:
        idx = next(i for i, t in enumerate(toks) if t.kind == 'ident' and t.text == 'fn')
    except StopIteration:
        return None
    name = toks[idx + 1].text
    j = idx + 2
    if toks[j].text == '<':
        return None
    pc = rsx.match_close(toks, j)
    params_txt = text[toks[j].end:toks[pc].start]
    k = pc + 1
    arrow = None
    while toks[k].text != '{':
        if toks[k].text == '-' and toks[k + 1].text == '>':
            arrow = k
        if toks[k].kind == 'ident' and toks[k].text == 'where':
            return None
        k += 1
    if arrow is None:
        return None
    rtype = text[toks[arrow + 1].end:toks[k].start].strip()
    bc = rsx.match_close(toks, k)
    body = text[toks[k].end:toks[bc].start]
    body_code = ''.join(t.text + ' ' for t in toks[k + 1:bc])
    if EXPR_ONLY_BAD.search(body_code) or re.search(r'\b(?!matches\b)[a-z_]+\s*!', body_code) or 'impl ' in rtype or 'mut' in params_txt:
        return None
    args = []
    for prm in rsx.split_args(params_txt):
        prm = prm.strip()
        if prm in ('self', '&self'):
            args.append('*self' if False else 'self')
        else:
            nm = prm.split(':', 1)[0].strip()
            if not re.match(r'^[a-z_][A-Za-z0-9_]*$', nm):
                return None
            args.append(nm)
    is_method = bool(args) and args[0] == 'self'
    call = ('self.%s__autospec(%s)' % (name, ', '.join(args[1:]))) if is_method else ('%s%s__autospec(%s)' % ('Self::' if ' :: ' in key else '', name, ', '.join(args)))
    spec_txt = 'pub open spec fn %s__autospec(%s) -> %s {%s}' % (name, params_txt.strip(), rtype, body)
    contract = {'item': key, 'ret': 'r', 'ensures': '@auto.%s r == %s' % (name, call)}
    return spec_txt, contract


def build(unit_dir, repo='/repo', mutate=None, auto_items=None, vacuity=False):
    unit = load_unit(unit_dir)
    if vacuity:
        for k_, c_ in unit['_contracts'].items():
            if c_.get('proved_in'):
                continue
            c_['_vacuity_probe'] = 'vacuity.' + re.sub(r'[^A-Za-z0-9_]+', '_', re.sub(r"<[^>]*>", '', k_.split(' ', 1)[-1])).strip('_')
    for (af, aspec) in (auto_items or []):
        unit.setdefault('source', []).append({'file': af, 'items': [aspec], 'auto': True})
    g = GenUnit(name=unit.get('name', os.path.basename(unit_dir)))
    counts = g.rule_counts
    chunks = extract_chunks(unit, repo)
    contracts = unit['_contracts']
    used_contracts = set()
    lines = []   # (text, origin)

    def emit(text, origin=None):
        for ln in text.split('\n'):
            lines.append((ln, origin))

    emit('// GENERATED by /verif/tools/extract.py from the working tree of %s -- do not edit' % repo)
    emit('#![allow(unused, non_snake_case, non_camel_case_types, unreachable_code, unreachable_patterns)]')
    emit('use vstd::prelude::*;')
    emit('verus! {')
    spec = unit['_spec']
    spec_start = len(lines)
    emit(spec)
    g.spec_lines = len(lines) - spec_start
    g.proof_fns = re.findall(r'\bproof\s+fn\s+([A-Za-z_][A-Za-z0-9_]*)', spec)
    for m in re.finditer(r'(external_body|assume_specification|\badmit\s*\(|\bassume\s*\(|\baxiom\b)[^\n]*', spec):
        g.assumptions.append(m.group(0).strip()[:160])
    emit('pub mod code {')
    emit(unit.get('code_prelude', 'use vstd::prelude::*;\nuse super::prims::*;\nuse super::spec::*;'))
    derive_drop = set(unit.get('derive_drop_all', []))
    pub_fields = unit.get('pub_fields', True)
    open_impl = None
    for ch in chunks:
        text = ch.text
        text = strip_docs_and_attrs(text, counts, derive_drop_all=(ch.name in derive_drop), derive_keep=DERIVE_KEEP + unit.get('derive_keep', {}).get(ch.name, []))
        # unit-specific hoists (R8/R9/R13) are written against the original repository text
        text = apply_user_rewrites(text, unit.get('rewrite', []), counts, ch.name)
        text = rewrite_macros(text, counts)
        text = rewrite_paths(text, counts)
        text = rewrite_closure_params(text, counts)
        if mutate:
            text = mutate(ch.name, text)
        kind = ch.name.split(' ', 1)[0]
        if pub_fields and kind == 'struct':
            # R12: named fields become pub
            def pubf(m):
                _count(counts, 'R12.pub')
                return m.group(1) + 'pub ' + m.group(2)
            text = re.sub(r'(?m)^(\s+)(?!pub\b)([a-z_][a-z0-9_]*\s*:)', pubf, text)
            # tuple structs: `struct X(T, U);` -> `struct X(pub T, pub U);`
            mt = re.search(r'\bstruct\s+\w+(?:<[^>]*>)?\s*\((.*)\)\s*;\s*$', text, re.S)
            if mt:
                fields = rsx.split_args(mt.group(1))
                newf = ', '.join(f if f.startswith('pub') else 'pub ' + f for f in fields)
                text = text[:mt.start(1)] + newf + text[mt.end(1):]
                _count(counts, 'R12.pub', len(fields))
        if pub_fields and kind in ('enum', 'struct', 'fn', 'const', 'type') and not re.match(r'\s*(#\[[^\]]*\]\s*)*pub\b', text):
            text = re.sub(r'^((?:\s*#\[[^\]]*\]\s*)*)', lambda m: m.group(1) + 'pub ', text, count=1)
            _count(counts, 'R12.pub')
        header = ch.impl_header
        if header != open_impl:
            if open_impl is not None:
                emit('}')
            if header:
                hdr_out = unit.get('impl_header_rewrite', {}).get(header, header)
                if hdr_out != header:
                    _count(counts, 'R13.inherent')
                emit(rewrite_paths(hdr_out, counts) + ' {')
            open_impl = header or None
        if not header and open_impl is not None:
            pass
        key = norm_item(ch.name)
        sha = hashlib.sha256(ch.text.encode()).hexdigest()[:16]
        if kind in ('impl', 'trait', 'fn'):
            is_fn = re.search(r'\bfn\b', text) is not None
        else:
            is_fn = False
        if is_fn and pub_fields and header and not re.match(r'\s*(#\[[^\]]*\]\s*)*pub\b', text) and ' for ' not in header:
            text = re.sub(r'^((?:\s*#\[[^\]]*\]\s*)*)', lambda m: m.group(1) + 'pub ', text, count=1)
        if ch.auto and is_fn and key not in contracts:
            au = autospec_for(text, key)
            g.auto_items.append({'item': key, 'file': ch.file, 'line': ch.first_line, 'autospec': bool(au), 'is_fn': True})
            if au:
                emit(rewrite_paths(au[0], counts))
                contracts[key] = au[1]
                _count(counts, 'R14.autospec')
        elif ch.auto:
            g.auto_items.append({'item': key, 'file': ch.file, 'line': ch.first_line, 'autospec': False, 'is_fn': bool(is_fn)})
        if key in contracts:
            used_contracts.add(key)
            c = contracts[key]
            if c.get('proved_in'):
                # the body is verified against this same contract in another unit; here only the contract is used
                text = re.sub(r'^(\s*)', lambda m: m.group(1) + '#[verifier::external_body] ', text, count=1)
                g.assumptions.append('contract of %s assumed here, proved in unit %s' % (key, c['proved_in']))
            for (txt, origin) in splice_contract(text, c, key):
                if origin and origin[0] == 'repo':
                    lines.append((txt, {'kind': 'repo', 'file': ch.file, 'line': ch.first_line + origin[1], 'fn': key}))
                elif origin and origin[0] == 'clause':
                    lines.append((txt, {'kind': 'clause', 'fn': key, 'ckind': origin[1], 'label': origin[2], 'clause': origin[3]}))
                else:
                    lines.append((txt, {'kind': 'splice', 'fn': key}))
            for ckind in ('requires', 'ensures'):
                for label, expr in parse_clauses(c.get(ckind, '')):
                    g.clauses.append({'fn': key, 'label': label, 'kind': ckind, 'text': expr})
            if c.get('_vacuity_probe'):
                g.clauses.append({'fn': key, 'label': c['_vacuity_probe'], 'kind': 'ensures', 'text': 'vacuity probe'})
            for lp in c.get('loop', []):
                for label, expr in parse_clauses(lp.get('invariant', '')):
                    g.clauses.append({'fn': key, 'label': label, 'kind': 'invariant', 'text': expr})
        else:
            for i, ln in enumerate(text.split('\n')):
                lines.append((ln, {'kind': 'repo', 'file': ch.file, 'line': ch.first_line + i, 'fn': key}))
        if is_fn:
            g.functions.append({'name': key, 'file': ch.file, 'line': ch.first_line, 'sha': sha,
                                'contracted': key in contracts})
    if open_impl is not None:
        emit('}')
    missing = set(contracts) - used_contracts
    if missing:
        raise LostAnchor('contract for item that was not extracted: ' + ', '.join(sorted(missing)))
    for rw in unit.get('rewrite', []):
        rid = rw.get('rule', 'R8') + '.' + rw.get('id', rw['pattern'][:20])
        if counts.get(rid, 0) < rw.get('min_count', 1):
            raise LostAnchor('rewrite %s matched %d times (< %d)' % (rid, counts.get(rid, 0), rw.get('min_count', 1)))
    emit(unit.get('code_epilogue', ''))
    emit('} // mod code')
    emit('} // verus!')
    emit('fn main() {}')
    g.text = '\n'.join(t.rstrip() for t, _ in lines) + '\n'
    g.linemap = [o for _, o in lines]
    return g


if __name__ == '__main__':
    ud = sys.argv[1]
    repo = sys.argv[2] if len(sys.argv) > 2 else '/repo'
    g = build(ud, repo)
    sys.stdout.write(g.text)
