#!/usr/bin/env python3
"""Collect confirmed seeded changes into /verif/seeded/<id>/ and regenerate the seed table in DESIGN.md.
usage: seed_collect.py <seed_dir> ...     (seed_dir = .../Cxx-out/<A|B|C> with patch.diff, demo.diff, NOTES.md,
                                           confirm.json from seed_confirm.py, check_result.json from seed_batch.py)
       seed_collect.py --table            only regenerate the table from seeded/*/meta.json
"""
import json
import os
import re
import shutil
import sys

VERIF = os.path.dirname(os.path.dirname(os.path.abspath(__file__)))
SEEDED = os.path.join(VERIF, 'seeded')


def section(notes, pat):
    m = re.search(r'^##\s*' + pat + r'.*?\n(.*?)(?=^## |\Z)', notes, re.S | re.M | re.I)
    return m.group(1).strip() if m else ''


def collect(seed):
    seed = seed.rstrip('/')
    pid = re.search(r'(C\d\d)-out', seed).group(1)
    letter = os.path.basename(seed)
    sid = '%s-%s' % (pid, letter)
    conf = json.load(open(os.path.join(seed, 'confirm.json')))
    if not conf.get('confirmed'):
        print('skip (not confirmed):', seed)
        return None
    dest = os.path.join(SEEDED, sid)
    os.makedirs(dest, exist_ok=True)
    for f in ('patch.diff', 'demo.diff', 'NOTES.md'):
        if os.path.exists(os.path.join(seed, f)):
            shutil.copy(os.path.join(seed, f), os.path.join(dest, f))
    notes = open(os.path.join(seed, 'NOTES.md')).read() if os.path.exists(os.path.join(seed, 'NOTES.md')) else ''
    title = notes.splitlines()[0].lstrip('# ').strip() if notes else sid
    cr = {}
    p = os.path.join(seed, 'check_result.json')
    if os.path.exists(p):
        cr = json.load(open(p))
    meta = {
        'id': sid,
        'breaks_property': pid,
        'round': int(os.environ.get('SEED_ROUND', 0)) or ({'A': 1, 'B': 1, 'C': 2, 'E': 5}.get(letter) or (4 if pid in ('C09', 'C10', 'C16', 'C17', 'C18', 'C20') else 3)),
        'title': title,
        'author': 'independent sub-agent given only the property text and its own scratch worktree',
        'which_part_breaks': section(notes, r'Which part')[:2500],
        'needs_to_manifest': section(notes, r'What is needed')[:2500],
        'demonstration': 'demo.diff (adds a test through the public API that fails with patch.diff and passes without it)',
        'confirmed_by_me': {
            'repo_head': conf.get('head'),
            'patch_applies': conf.get('patch_applies'),
            'existing_suite_with_patch': conf.get('suite_with_patch'),
            'demo_cmds': conf.get('demo_cmds'),
            'demo_fails_with_patch': conf.get('demo_fails_with_patch'),
            'demo_passes_without_patch': conf.get('demo_passes_without_patch'),
        },
        'what_i_ran': [
            'tools/seed_confirm.py <dir>  (scratch git worktree of /repo HEAD: git apply patch.diff; cargo test --workspace --no-fail-fast --offline; git apply demo.diff; demo command with and without patch.diff; worktree and target removed)',
            'tools/seed_batch.py <dir>    (scratch copy of /repo with patch.diff applied; VERIF_REPO=<copy> VERIF_OUT=<copy>/.verif-out /verif/check %s quick; copy removed)' % pid,
        ],
        'check_result': {
            'command': './check %s %s' % (pid, cr.get('tier', 'quick')),
            'exit': cr.get('exit'),
            'refuted_obligations': cr.get('refuted', []),
            'lines': cr.get('lines', []),
            'sample_replay': cr.get('sample_replay'),
            'wall_s': cr.get('wall_s'),
            'repo_head': cr.get('head'),
            'verif_head': cr.get('verif_head'),
        },
    }
    json.dump(meta, open(os.path.join(dest, 'meta.json'), 'w'), indent=1)
    return meta


def table():
    rows = []
    for sid in sorted(os.listdir(SEEDED)):
        p = os.path.join(SEEDED, sid, 'meta.json')
        if not os.path.exists(p):
            continue
        m = json.load(open(p))
        cr = m['check_result']
        ex = cr.get('exit')
        verdict = {1: 'caught (exit 1)', 0: '**missed** (exit 0)', 2: 'undecided (exit 2)'}.get(ex, 'not run')
        obs = ', '.join('`%s`' % o for o in cr.get('refuted_obligations', [])[:4])
        if len(cr.get('refuted_obligations', [])) > 4:
            obs += ', … (%d)' % len(cr['refuted_obligations'])
        if ex == 2:
            inc = [l for l in cr.get('lines', []) if l.startswith('INCONCLUSIVE')]
            obs = (inc[0][:160] + ' …') if inc else ''
        title = re.sub(r'^C\d\d\s*[/ ]*\s*(seed|change)?\s*[A-C]\s*[-–:]\s*', '', m['title'], flags=re.I)
        rows.append('| %s | %s | %s | %s |' % (sid, title.replace('|', '/')[:110], verdict, obs.replace('|', '/')))
    n = len(rows)
    caught = sum(1 for r in rows if 'caught' in r)
    undec = sum(1 for r in rows if 'undecided' in r)
    missed = sum(1 for r in rows if 'missed' in r)
    head = ('%d seeded changes: %d caught (exit 1 with a VIOLATION line), %d undecided (exit 2), %d missed (exit 0). '
            'Each row is the registered quick check of the property the change was written against.\n\n'
            '| id | change | result | refuted obligations (first four) |\n|---|---|---|---|\n' % (n, caught, undec, missed))
    txt = head + '\n'.join(rows) + '\n'
    open(os.path.join(SEEDED, 'TABLE.md'), 'w').write(txt)
    dp = os.path.join(VERIF, 'DESIGN.md')
    d = open(dp).read()
    if '<!-- SEED_TABLE_BEGIN -->' in d:
        d = re.sub(r'<!-- SEED_TABLE_BEGIN -->.*?<!-- SEED_TABLE_END -->',
                   lambda _: '<!-- SEED_TABLE_BEGIN -->\n' + txt + '<!-- SEED_TABLE_END -->', d, flags=re.S)
        open(dp, 'w').write(d)
    print('table: %d rows, %d caught, %d undecided, %d missed' % (n, caught, undec, missed))


def update(sdir):
    """refresh check_result in seeded/<id>/meta.json from a new seed_batch run on that directory"""
    sdir = sdir.rstrip('/')
    m = json.load(open(os.path.join(sdir, 'meta.json')))
    cr = json.load(open(os.path.join(sdir, 'check_result.json')))
    m['check_result'] = {
        'command': './check %s %s' % (m['breaks_property'], cr.get('tier', 'quick')),
        'exit': cr.get('exit'), 'refuted_obligations': cr.get('refuted', []), 'lines': cr.get('lines', []),
        'sample_replay': cr.get('sample_replay'), 'wall_s': cr.get('wall_s'), 'repo_head': cr.get('head'), 'verif_head': cr.get('verif_head'),
    }
    json.dump(m, open(os.path.join(sdir, 'meta.json'), 'w'), indent=1)


if __name__ == '__main__':
    if sys.argv[1:2] == ['--update']:
        for s_ in sys.argv[2:]:
            update(s_)
        table()
        sys.exit(0)
    if sys.argv[1:] != ['--table']:
        for s in sys.argv[1:]:
            collect(s)
    table()
