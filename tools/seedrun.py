#!/usr/bin/env python3
"""Apply a seeded change to /repo, run the given checks (quick), undo.  usage: seedrun.py <patch.diff> Cxx [Cyy ...]"""
import subprocess, sys, os
patch = sys.argv[1]
props = sys.argv[2:]
tier = os.environ.get('SEED_TIER', 'quick')
assert subprocess.run(['git', '-C', '/repo', 'status', '--porcelain', '--untracked-files=no'], capture_output=True, text=True).stdout.strip() == '', '/repo not clean'
r = subprocess.run(['git', '-C', '/repo', 'apply', patch], capture_output=True, text=True)
if r.returncode:
    # the tree moved on (fix: commits) since the seed was written: 3-way merge on the recorded blobs
    r = subprocess.run(['git', '-C', '/repo', 'apply', '--3way', patch], capture_output=True, text=True)
    subprocess.run(['git', '-C', '/repo', 'reset', '-q'])
if r.returncode:
    print('patch does not apply:', r.stderr); sys.exit(3)
try:
    for p in props:
        c = subprocess.run(['/verif/check', p, tier], capture_output=True, text=True)
        lines = [l for l in c.stdout.splitlines() if l.startswith(('VIOLATION', 'INCONCLUSIVE', 'refuted', 'property='))]
        print('%s exit=%d' % (p, c.returncode))
        for l in lines: print('   ', l[:400])
finally:
    subprocess.run(['git', '-C', '/repo', 'checkout', '--', '.'])
    subprocess.run(['git', '-C', '/repo', 'clean', '-fdq', '--', 'src', 'gsd-parser/src', 'tests', 'gsd-parser/tests'])
